"""Running the REAL search engine (ctparse._ctparse) on a synthetic ground rewrite system chosen by
the specification, and recording what it does as a SearchTrace trace.

The synthetic rules are registered through the library's own rule() decorator after the registry
dictionaries have been emptied IN PLACE (they are shared by reference with ctparse.ctparse and
partial_parse); everything is restored afterwards."""
import sys
from contextlib import contextmanager
from datetime import datetime

from . import qa

CTP = qa.CTP
_rule_mod = sys.modules["ctparse.rule"]
T = qa.T


class SynVal(T.Artifact):
    def __init__(self, name):
        super().__init__()
        self._attrs = ["name"]
        self.name = name

    def __str__(self):
        return self.name


def _is(name):
    def pred(x):
        return isinstance(x, SynVal) and x.name == name
    pred.__name__ = "_predicate"
    return pred


class Grammar:
    """tokens: list of (name, regex text); rules: list of (rule name, lhs names, rhs name | 'FAIL')."""

    def __init__(self, name, tokens, rules):
        self.name = name
        self.tokens = tokens
        self.rules = rules
        self.id2name = {}

    def tla(self, init_seqs, prefix="G"):
        def el(e):
            return '[a |-> "%s", s |-> %d, e |-> %d, tok |-> TRUE]' % e
        seqs = ", ".join("<<" + ", ".join(el(e) for e in seq) + ">>" for seq in init_seqs)
        rws = ", ".join('[rule |-> "%s", lhs |-> <<%s>>, rhs |-> "%s"]' % (r, ", ".join('"%s"' % x for x in lhs), rhs)
                        for r, lhs, rhs in self.rules)
        order = ", ".join('"%s"' % r for r, _, _ in self.rules)
        return ("%s_Init == <<%s>>\n%s_Rules == {%s}\n%s_Order == <<%s>>\n" % (prefix, seqs, prefix, rws, prefix, order))


@contextmanager
def installed(gr):
    rm = _rule_mod
    saved = (dict(rm.rules), dict(rm._regex), dict(rm._regex_str), dict(rm._str_regex), rm._regex_cnt)
    rm.rules.clear()
    rm._regex.clear()
    rm._regex_str.clear()
    rm._str_regex.clear()
    try:
        tok_regex = dict(gr.tokens)
        for rname, lhs, rhs in gr.rules:
            pats = []
            for x in lhs:
                pats.append(tok_regex[x] if x in tok_regex else _is(x))

            def make(rname=rname, lhs=lhs, rhs=rhs):
                def prod(ts, *args):
                    if rhs == "FAIL":
                        return None
                    for a in args:
                        if isinstance(a, SynVal) and a.name == rhs:
                            return a        # hand an argument back unchanged (absorbing rule)
                    return SynVal(rhs)
                prod.__name__ = rname
                return prod
            rm.rule(*pats)(make())
        gr.id2name = {}
        for tname, rx in gr.tokens:
            if rx in rm._str_regex:
                gr.id2name[rm._str_regex[rx]] = tname
        yield gr
    finally:
        rm.rules.clear()
        rm.rules.update(saved[0])
        rm._regex.clear()
        rm._regex.update(saved[1])
        rm._regex_str.clear()
        rm._regex_str.update(saved[2])
        rm._str_regex.clear()
        rm._str_regex.update(saved[3])
        rm._regex_cnt = saved[4]


class ScriptScorer(qa.Scorer):
    """Scores from a seeded RNG over a small integer set (ties matter); logs every call."""

    def __init__(self, rng, scores, raw):
        self.rng = rng
        self.scores = list(scores)
        self.raw = raw

    def score(self, txt, ts, pp):
        sc = self.rng.choice(self.scores)
        self.raw.append(("score", pp, sc))
        return sc

    def score_final(self, txt, ts, pp, prod):
        sc = self.rng.choice(self.scores)
        self.raw.append(("final", pp, prod, sc))
        return sc


def name_of(gr, x):
    if isinstance(x, T.RegexMatch):
        return gr.id2name[x.id]
    return x.name


def run_engine(gr, text, rng, scores, depth=0, deadline=None, rel=1.0):
    """One run of the real _ctparse on `text` under grammar gr (must be installed), observed through
    the scorer argument, _match_rule, apply_rule, the deadline closure and the generator protocol.
    Returns (trace events, init_seqs, yielded candidates, number of clock reads)."""
    import ctparse.timers as tm
    raw = []
    scorer = ScriptScorer(rng, scores, raw)
    clock = qa.VirtualClock()
    orig_timeout = CTP.timeout_
    orig_match_rule = CTP._match_rule
    orig_apply = qa.PartialParse.apply_rule

    def my_timeout(t):
        f = orig_timeout(t)

        def g():
            try:
                f()
            except tm.CTParseTimeoutError:
                raw.append(("chk", 1))
                raise
            raw.append(("chk", 0))
        return g

    def my_match_rule(seq, rule):
        raw.append(("mr", seq))
        return orig_match_rule(seq, rule)

    def my_apply(self, ts, rule, rule_name, match):
        out = orig_apply(self, ts, rule, rule_name, match)
        raw.append(("apply", self, rule_name, match, out))
        return out

    CTP.timeout_ = my_timeout
    CTP._match_rule = my_match_rule
    qa.PartialParse.apply_rule = my_apply
    yielded = []
    try:
        with qa.virtual_clock(clock):
            gen = CTP._ctparse(text, datetime(2020, 1, 1), timeout=(deadline if deadline is not None else 0),
                               relative_match_len=rel, max_stack_depth=depth, scorer=scorer)
            for c in gen:
                raw.append(("yield",))
                yielded.append([c.resolution.name, c.resolution.mstart, c.resolution.mend,
                                [gr.id2name.get(r, r) if isinstance(r, int) else r for r in c.production], c.score])
    finally:
        CTP.timeout_ = orig_timeout
        CTP._match_rule = orig_match_rule
        qa.PartialParse.apply_rule = orig_apply
    # ---- raw seam events -> trace events ------------------------------------------------------
    events = []
    init_seqs = []
    score_of = {}
    started = False
    last_seq = None
    k = 0
    timed_out = 0
    while k < len(raw):
        r = raw[k]
        if r[0] == "chk":
            events.append({"ev": "Chk", "expired": r[1]})
            timed_out = timed_out or r[1]
        elif r[0] == "score":
            pp, sc = r[1], r[2]
            score_of[id(pp.prod)] = sc
            if not started:
                init_seqs.append([(name_of(gr, x), x.mstart, x.mend) for x in pp.prod])
                events.append({"ev": "S0", "i": len(init_seqs), "score": sc})
            # scores of applications are attached to their A event below
        elif r[0] == "mr":
            started = True
            if r[1] is not last_seq:
                last_seq = r[1]
                events.append({"ev": "Pop", "prod": [name_of(gr, x) for x in r[1]], "score": score_of.get(id(r[1]), 0)})
        elif r[0] == "apply":
            started = True
            _, self_pp, rule_name, match, out = r
            if out is None:
                events.append({"ev": "A", "rule": rule_name, "i": match[0] + 1, "res": "FAIL", "score": 0})
            else:
                sc = raw[k + 1][2] if k + 1 < len(raw) and raw[k + 1][0] == "score" and raw[k + 1][1] is out else 0
                events.append({"ev": "A", "rule": rule_name, "i": match[0] + 1, "res": name_of(gr, out.prod[match[0]]), "score": sc})
        elif r[0] == "final":
            started = True
            emit = 1 if k + 1 < len(raw) and raw[k + 1][0] == "yield" else 0
            events.append({"ev": "SF", "val": r[2].name, "score": r[3], "emit": emit})
        k += 1
    events.append({"ev": "End", "n": len(yielded), "timedout": timed_out})
    return events, init_seqs, yielded, clock.reads
