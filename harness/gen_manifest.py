"""Regenerates /verif/MANIFEST.json from the table below (run by hand when a check is added)."""
import json
import os

VERIF = os.path.dirname(os.path.dirname(os.path.abspath(__file__)))
BASELINE = ("cd /repo && env -u QUICKADD_VERIF /venv/bin/python -m pytest -ra -q -p no:cacheprovider --timeout=900 "
            "--continue-on-collection-errors")

# id -> (level, technique, level text, level note, design ref)
CHECKS = {
    "C03": ("model_checking",
            "TLA+ spec (Calendar/Rules/Denote) model-checked by TLC over every day of 2016-2043; rule-row and end-to-end traces of the real parser judged by TLC trace modules",
            "TLC proves RuleDenote = Denote (declarative calendar definition from the property text) for every reference day of the 28-year cycle x boundary minutes; the same TLA+ operators then judge (a) every relative-day production of the tree called directly on every day of the cycle and (b) ctparse() on every surface form of the frozen lexicon at boundary dates. Exhaustive at model level, exhaustive per-day at rule level, sampled at text level.",
            "trusts: TLC; the frozen lexicon as the surface syntax; Python datetime as the implementation's calendar (bound to Calendar.tla on every day of the cycle); minute resolution of reference times",
            "DESIGN.md section 4 (C03)"),
}

NOT_YET = {}


def main():
    props = [json.loads(l)["id"] for l in open(os.path.join(VERIF, "properties.jsonl"))]
    checks = []
    for pid in props:
        if pid not in CHECKS:
            continue
        level, tech, text, note, ref = CHECKS[pid]
        checks.append({
            "property_id": pid,
            "quick_cmd": "./check %s --tier quick" % pid,
            "thorough_cmd": "./check %s --tier thorough" % pid,
            "evidence_file": "/verif/evidence/%s.json" % pid,
            "replay_cmd_template": "./check %s --replay {path}" % pid,
            "engine": "tlc-conformance",
            "level_claimed": {"category": level, "text": text, "design_ref": ref},
            "level_note": note,
            "technique": tech,
        })
    na = [{"property_id": p, "reason": NOT_YET.get(p, "check not built yet in this round (planned: see DESIGN.md section 4); not claimed until its TLA+ specification and conformance harness exist")}
          for p in props if p not in CHECKS]
    man = {
        "version": 1,
        "setup_cmd": "./check setup",
        "hooks": {"guard": "QUICKADD_VERIF", "enable": "QUICKADD_VERIF=1 (set by ./check); the harness observes through seams the library already exposes (scorer= argument, PartialParse.apply_rule, ctparse.timers.perf_counter, the rule registry) - no source hooks are compiled into /repo",
                  "baseline_off_cmd": BASELINE, "source_commits": [], "add_only": True},
        "engines": [{"name": "tlc-conformance", "path": "/verif/check", "serves_properties": [c["property_id"] for c in checks],
                     "kind_free_text": "explicit TLA+ specification (specs/*.tla) model-checked with TLC + trace/observation validation of the real code by TLC trace modules"}],
        "checks": checks,
        "not_applicable": na,
        "notes": "One driver (./check <ID>); specs in /verif/specs; KNOWN_FINDINGS.json lists recorded findings and fixed defects.",
    }
    with open(os.path.join(VERIF, "MANIFEST.json"), "w") as fd:
        json.dump(man, fd, indent=1)
    print("MANIFEST: %d checks, %d not claimed" % (len(checks), len(na)))


if __name__ == "__main__":
    main()
