"""Regenerates /verif/MANIFEST.json from the table below (run by hand when a check is added)."""
import json
import os

VERIF = os.path.dirname(os.path.dirname(os.path.abspath(__file__)))
BASELINE = ("cd /repo && env -u QUICKADD_VERIF /venv/bin/python -m pytest -ra -q -p no:cacheprovider --timeout=900 "
            "--continue-on-collection-errors")

# id -> (level, technique, level text, level note, design ref)
DEN = ("TLA+ spec (Calendar/Rules/Denote) model-checked by TLC over the reference-time sweep; rule-row and end-to-end traces of "
       "the real parser judged by TLC trace modules (RulesTrace, DenoteTrace)")
NOTE = ("trusts: TLC; the frozen lexicon (specs/lexicon.json) as the surface syntax of the specification grammar, incl. its homograph "
        "guards; projections harness/qa.py (artifact -> record); Python datetime/dateutil as the implementation's calendar (bound to "
        "Calendar.tla day by day); minute resolution of reference times")


def den(text, ref):
    return ("model_checking", DEN, text, NOTE, ref)


CHECKS = {
    "C03": den("TLC proves RuleDenote = Denote (declarative calendar definition from the property text) for every reference day of the 28-year cycle x boundary minutes; the same TLA+ operators then judge (a) every relative-day production of the tree called directly on the days of the cycle and (b) ctparse() on every surface form of the frozen lexicon at boundary dates (incl. the omitted-reference-time default). Exhaustive at model level, per-day at rule level, sampled at text level.", "DESIGN.md section 4 (C03)"),
    "C04": den("TLC proves for every day of 2016-2043 that the latent productions return the declarative nearest-future date (never before today, written fields preserved, nothing matching in between; stated roll/stay conventions) for all weekdays, days of month, day+month pairs and parts of day; the real productions are called on the cycle and judged against the same operators, and ctparse() on all lexicon forms at boundary dates.", "DESIGN.md section 4 (C04)"),
    "C05": den("TLC proves for every valid date 1990-2029 x reference times that every notation's derivation yields exactly that date (and date+clock), independent of the reference time; productions called directly on the dates, ctparse() on all notations x reference times, judged by TLC.", "DESIGN.md section 4 (C05)"),
    "C06": den("TLC checks all 1440 minutes x all clock notations at rule level and the latent anchoring (first such minute strictly after the reference minute, < 24 h) incl. equality and roll-over cases; the real productions and the real post-processing step are called for all minutes, ctparse() on every notation, judged by TLC. One recorded finding (bare hour + part of day).", "DESIGN.md section 4 (C06)"),
    "C07": den("TLC checks all 24x24 hour pairs x minute variants x contexts (date, latent, bare) for from=A, to=B after the stated wrap, from<to, <=24h, ordered/reversed date pairs and the four half-open forms, on Rules composed with Postprocess; real productions called on all pairs; ctparse() on all pairs x joiners x contexts judged by TLC.", "DESIGN.md section 4 (C07)"),
    "C08": den("TLC checks N in 0..120 x units, all number words, half forms, date+for+duration on every start date of the cycle with dateutil month clipping, and the duration/date-range consistency rule; every number word x unit word of the frozen lexicon goes through the tree's own pattern and production (token meaning from the lexicon), ctparse() end to end, judged by TLC.", "DESIGN.md section 4 (C08)"),
    "C01": ("model_checking",
            "TLA+ specs Derive.tla (every rule composition over a representative token alphabet: NoRaise, strictly decreasing measure), SearchImpl.tla (termination under every scorer / expiry point), Preprocess.tla, Api.tla model-checked by TLC; API-call observations judged by the TLC trace module TotalTrace; rule rows by RulesTrace",
            "Model level: no applicable production raises on any token sequence of length <= K (K=2 quick, 3 thorough) x boundary reference times, every rewrite strictly decreases a well-founded measure (so the search space is finite and the stream ends without a timeout), the search terminates under every scorer and expiry point, normalisation and the single-result pick are total. Implementation: ctparse(), exhaustion of ctparse_gen() and debug=True over class strings (separator/dash/letter/digit/punctuation/exotic, length <= 5-6), lexeme soups, hazard texts and the corpus x reference times 1970-2100 (sub-minute parts, omitted) x the option grid incl. the model-absent fallback; plus the package import with the model file absent.",
            "trusts: TLC; string length and K are bounded; a wall-clock timeout is only smoke-tested here (C13 enumerates expiry points with a virtual clock)",
            "DESIGN.md section 4 (C01)"),
    "C02": ("model_checking",
            "TLA+ spec Derive.tla with Values!WellFormed model-checked by TLC over all token sequences of length <= K; every streamed candidate of the real parser judged by the TLC trace module CandTrace (same WellFormed predicate, spans, accessor operators); rule rows by RulesTrace",
            "TLC proves AllWF / AccessorsTotal / PodsKnown / PostWF (latent anchoring keeps values well formed) for every composition of rules over the representative alphabet (dates incl. 29/30/31 and Feb, clocks, durations, modifier chains) x 4-8 reference times, with the part-of-day table exported from the tree under test. All candidates (not only the winner) of corpus, hazard and random lexeme texts, latent on/off, are judged: field ranges, day exists in month/year, known part of day, dated start <= end, .start/.end/.dt never raise and equal the specification's accessors, 0 <= mstart < mend <= len(text).",
            "trusts: TLC; the representative token payloads; projections of harness/qa.py",
            "DESIGN.md section 4 (C02)"),
    "C09": ("model_checking",
            "TLA+ specs Lattice.tla + Embed.tla model-checked by TLC (admitted candidate sequences of an embedded text = shifted ones of the bare text when match spans exclude trailing blanks; counterexample in 'raw' mode); real lexer/sequence enumeration bound by LatticeTrace; embeddings judged by VariantTrace",
            "TLC checks the embedding invariant over all small match universes (<= 3 matches on 4 positions, patterns with/without trailing optional whitespace, with/without suffix). The real _match_regex/_regex_stack output is judged equal to the specification's maximal gap-free paths on every bare and embedded text. Every grammar production and corpus expression is embedded in 0-3 inert words on each side (inertness decided by running the library's own patterns over the word alone, as the property says), latent on and off; TLC accepts iff the resolution equals the bare one and the span is the bare span shifted (and the whole expression for grammar productions).",
            "trusts: TLC; inert-word pool filtered by the tree's own patterns; regular-expression matching itself is observed, not modelled",
            "DESIGN.md section 4 (C09)"),
    "C10": ("model_checking",
            "TLA+ spec Subject.tla model-checked by TLC over all arrangements of <= 4 items; four real parses per arrangement judged by the TLC trace module SubjectTrace",
            "TLC shows the subject constraint (subsequence of the non-hashtag words, keeps every inert word, contains no word wholly inside a used pattern match) is satisfiable and closed under removing hashtags / the time expression for every arrangement. Real texts are assembled for every order of item kinds (inert, ordinary, hashtag, time expression; up to 5 items) with the library's separator characters; labels, subject, hashtag independence of resolution and subject, and the no-match path are judged by the same operators.",
            "trusts: TLC; ASCII words; words compared after the engine's own splitting on whitespace and '-'",
            "DESIGN.md section 4 (C10)"),
    "C11": ("model_checking",
            "TLA+ spec Preprocess.tla model-checked exhaustively by TLC over all class strings up to length 8; the real _preprocess_string judged by PreprocessTrace on every assigned code point and on instantiated class strings; metamorphic variants judged by VariantTrace",
            "TLC proves idempotence, separator runs = one blank, dash runs = '-', no edge blanks, characters kept in order on all 9841 class strings. The class abstraction is bound to the code on every assigned Unicode code point (thorough; quick: all separators, dashes, punctuation + a sample of letters/symbols/private use) and on every class string up to length 6 with random members; corpus and grammar expressions under separator, dash and case substitution must resolve like the plain text.",
            "trusts: TLC; unicodedata of the interpreter for the class of a code point (unassigned code points are outside the quantifier)",
            "DESIGN.md section 4 (C11)"),
    "C16": ("translation_validation",
            "TLA+ spec NaiveBayes.tla (n-gram windows, vocabulary, per-class counts, smoothing denominators) model-checked by TLC; for every corpus TLC computes the sufficient statistics, the harness evaluates the textbook formula on them and compares with the fitted real pipeline",
            "Equivalence of the in-house pipeline with textbook Laplace-smoothed multinomial NB over 1-3-grams: exhaustive over alphabet {a,b}, <= 3 documents of <= 3 tokens, both classes, 7 query shapes (unseen / repeated tokens, empty); seeded random corpora above; |delta| < 1e-9, finite, probabilities sum to one, save+reload changes nothing; score / score_final composition checked on every scoring call of corpus parses under the shipped model.",
            "trusts: TLC for the integer statistics; Python floats for log/exp on both sides; the shipped model's training set is not available (only composition and vocabulary are checked for it)",
            "DESIGN.md section 4 (C16)"),
    "C17": ("exploration",
            "TLA+ spec Training.tla (Samples(stream, gold) with value equality of Values.tla); both dataset builders judged by the TLC trace module TrainingTrace; duplication monotonicity tested exhaustively on a tiny domain and randomly above",
            "For every entry the stream is recorded independently and TLC accepts the emitted samples iff they are exactly one sample per non-empty prefix of every candidate's trace, labelled by value equality with the gold (spans ignored) - bundled dataset, corpora and generated Time/Interval/Duration entries. Adding k copies of a positive example never lowers its score: all training sets of <= 3 traces of length <= 3 over 2 tokens, k <= 3, plus seeded random sets.",
            "trusts: TLC; the monotonicity clause is tested, not proved",
            "DESIGN.md section 4 (C17)"),
    "C18": ("exploration",
            "TLA+ spec ValueDomain.tla / ValueEq.tla: TLC enumerates and checks the value domain; pairs of real objects built with different spans judged by the TLC trace module ValueEq",
            "Every Time over absent/min/max field values against itself and every single-field variation, all pairs of intervals over a base of ends incl. open ends, all pairs of durations over amounts x units, and every gold string of the bundled dataset/corpus: == iff same value, equal values hash equal, printed form injective, parse(print(A)) = A.",
            "trusts: TLC; pairs differing in more than one Time field are sampled through the single-field variations only",
            "DESIGN.md section 4 (C18)"),
    "C19": ("model_checking",
            "TLA+ specs Derive.tla (all modifier chains up to depth 6/7: PodsKnown) model-checked by TLC with the part-of-day table of the tree; registry / syntax tree / probes / shipped vocabulary judged by the TLC trace module RuleBase against the frozen RuleTable.tla; firing rows by RulesTrace",
            "TLC explores every chain of early/late/very modifiers on every part of day against the exported table. One structural observation of the tree: every @rule definition of the syntax tree is registered under a unique name, no adjacent patterns, text <-> id bijection, no empty / zero-length match, every rule fires, every vocabulary unigram is a pattern id or rule name, and every shipped pattern id is still read by the same rule (ids are the model's features).",
            "trusts: TLC; probe texts for zero-length matches; 'can fire' witnessed on corpus + lexeme soups",
            "DESIGN.md section 4 (C19)"),
    "C12": ("model_checking",
            "TLA+ spec Sessions.tla: TLC enumerates every schedule of 2-3 suspended candidate streams (incl. abandonment, scorer crash); each is replayed on real generators; histories, threads and hash seeds recorded and judged by the TLC trace module SessionsTrace against fresh-process results",
            "TLC proves on the model that streams only touch frame-local state and exports ALL interleavings for small streams; every one is replayed on real ctparse_gen generators and each yielded tuple (resolution, span, score, production, subject, labels) compared with a fresh single-call interpreter; random call histories (with abandoned streams and failing calls), 8 threads at 1 us switch interval and several PYTHONHASHSEED values are judged the same way, with digests of the rule registry / patterns / model / arguments before and after. Rule applications are additionally judged argument-pure (RulesTrace) and candidates stable after yield (DeriveText). Exhaustive for the generator schedules, exploration for threads.",
            "trusts: TLC; digests (sha1 of the canonical JSON of the result tuple / registry dump / pickled model); CPython's GIL scheduling is not controllable",
            "DESIGN.md section 4 (C12)"),
    "C13": ("model_checking",
            "TLA+ spec SearchImpl.tla (deadline may expire at any point, work counters) model-checked by TLC; runs of the real engine under a virtual clock for EVERY expiry point validated as SearchImpl behaviours (SearchTrace) and against DeadlineTrace",
            "TLC explores every scorer x every expiry point on small rewrite systems (bounded work between checks with a bound that does not mention the number of candidate sequences, termination, no timeout without deadline). The real _ctparse is run on synthetic grammars with the deadline placed between every two clock reads (virtual clock): each run must be a behaviour of SearchImpl, must check the deadline before every candidate sequence and every expansion, and its output must be a prefix of the untimed output. On the real grammar every expiry point of inputs with up to 81 candidate sequences is judged by DeadlineTrace (work per interval, nothing after the raising check, prefix, ctparse() = best of the partial stream, no raise, timeout 0 = no limit).",
            "trusts: TLC; the virtual clock replaces ctparse.timers.perf_counter (one tick per read); work is observed through _filter_rules / scorer= / apply_rule",
            "DESIGN.md section 4 (C13)"),
    "C14": ("model_checking",
            "TLA+ specs Api.tla + SearchImpl.tla model-checked by TLC (all small streams / all scorers); ctparse() vs list(ctparse_gen()) observations judged by the TLC trace module ApiTrace; engine runs on synthetic grammars validated by SearchTrace",
            "TLC proves on Api.tla that the single-result call returns a maximal-score element of any stream (empty result iff empty stream) and on SearchImpl that a value is re-emitted only with a strictly higher score, for every scorer incl. ties. The real pair of entry points is run under identical arguments (seeded random scorer) over corpus + edge texts x option grid and judged by the same predicate; scores enter TLC as exact ranks + finiteness flags.",
            "trusts: TLC; scores projected to ranks within one observation (order-preserving); no timeout",
            "DESIGN.md section 4 (C14)"),
    "C15": ("model_checking",
            "TLA+ spec SearchImpl.tla (code-shaped worklist search over an arbitrary ground rewrite system) model-checked by TLC for soundness/completeness/dedup/termination under every scorer; the REAL engine run on synthetic grammars and every run validated as a SearchImpl behaviour (SearchTrace); real-grammar candidates replayed as derivations by TLC (DeriveText + Rules.tla)",
            "Three legs: (1) TLC: Sound, Complete (depth 0), StrictlyBetter, DepthOK, termination for all score assignments on small rewrite systems; (2) the real _ctparse executes those and further rewrite systems registered through rule(), under seeded integer scorers and depth limits 0/1/2; TLC accepts each recorded run only if it is a behaviour of SearchImpl, and independently judges what was streamed against the closure of the rewrite system (unsound / incomplete / untruthful production trace); (3) on the real rule base every streamed candidate's production trace is replayed rule by rule with Rules!Apply (TLC infers the windows), small texts get the full closure (sound + complete), every rule application is judged against Apply and for argument purity, candidates must not change after their yield.",
            "trusts: TLC; candidate sequences (lexing + sequence enumeration) are observed, not modelled; projections of harness/qa.py",
            "DESIGN.md section 4 (C15)"),
    "C20": den("TLC checks the gluing rules for every dated value x every minute (homomorphism at rule level); end to end, three parses per case (day, clock with latent off, both) over day forms x clock notations x orders x connectors are judged by the TLA+ predicate GlueOK and the declarative day/clock denotations. Rejections are diagnosed (exhaustive re-parse) so that beam-pruning findings are told from composition defects. Three recorded findings (depth-limit pruning).", "DESIGN.md section 4 (C20)"),
}

NOT_YET = {}


def main():
    props = [json.loads(l)["id"] for l in open(os.path.join(VERIF, "properties.jsonl"))]
    checks = []
    for pid in props:
        if pid not in CHECKS:
            continue
        level, tech, text, note, ref = CHECKS[pid]
        checks.append({
            "property_id": pid,
            "quick_cmd": "./check %s --tier quick" % pid,
            "thorough_cmd": "./check %s --tier thorough" % pid,
            "evidence_file": "/verif/evidence/%s.json" % pid,
            "replay_cmd_template": "./check %s --replay {path}" % pid,
            "engine": "tlc-conformance",
            "level_claimed": {"category": level, "text": text, "design_ref": ref},
            "level_note": note,
            "technique": tech,
        })
    na = [{"property_id": p, "reason": NOT_YET.get(p, "check not built yet in this round (planned: see DESIGN.md section 4); not claimed until its TLA+ specification and conformance harness exist")}
          for p in props if p not in CHECKS]
    man = {
        "version": 1,
        "setup_cmd": "./check setup",
        "hooks": {"guard": "QUICKADD_VERIF", "enable": "QUICKADD_VERIF=1 (set by ./check); the harness observes through seams the library already exposes (scorer= argument, PartialParse.apply_rule, ctparse.timers.perf_counter, the rule registry) - no source hooks are compiled into /repo",
                  "baseline_off_cmd": BASELINE, "source_commits": [], "add_only": True},
        "engines": [{"name": "tlc-conformance", "path": "/verif/check", "serves_properties": [c["property_id"] for c in checks],
                     "kind_free_text": "explicit TLA+ specification (specs/*.tla) model-checked with TLC + trace/observation validation of the real code by TLC trace modules"}],
        "checks": checks,
        "not_applicable": na,
        "notes": "One driver (./check <ID>); specs in /verif/specs; KNOWN_FINDINGS.json lists recorded findings and fixed defects.",
    }
    with open(os.path.join(VERIF, "MANIFEST.json"), "w") as fd:
        json.dump(man, fd, indent=1)
    print("MANIFEST: %d checks, %d not claimed" % (len(checks), len(na)))


if __name__ == "__main__":
    main()
