"""Thin runner around TLC (tla2tools 1.8) for the quickadd verification harness.

Every invocation is wrapped in an outer timeout, gets its own scratch metadir (removed
afterwards), runs with cwd=/verif/specs and returns TLC's own counters so that the
evidence files quote what TLC measured.
"""
import os
import re
import shutil
import subprocess
import tempfile
import time

SPECS = os.path.join(os.path.dirname(os.path.dirname(os.path.abspath(__file__))), "specs")
JAR = "/opt/veriftools/tla/tla2tools.jar:/opt/veriftools/tla/CommunityModules-deps.jar"


class TLCResult:
    def __init__(self):
        self.ok = False            # "Model checking completed. No error has been found."
        self.generated = 0
        self.distinct = 0
        self.depth = 0
        self.errors = []           # text of Error: blocks
        self.violated = []         # names of violated invariants / properties
        self.prints = []           # raw PrintT lines (tuples rendered by TLC)
        self.timed_out = False
        self.wall_s = 0.0
        self.stdout = ""
        self.cmd = ""
        self.coverage = {}         # action name -> (distinct, total) when -coverage was on

    def summary(self):
        return {
            "ok": self.ok, "generated": self.generated, "distinct": self.distinct,
            "depth": self.depth, "violated": self.violated, "timed_out": self.timed_out,
            "wall_s": round(self.wall_s, 2), "cmd": self.cmd,
        }


_RE_STATES = re.compile(r"(\d+) states generated, (\d+) distinct states found")
_RE_DEPTH = re.compile(r"The depth of the complete state graph search is (\d+)")
_RE_VIOL = re.compile(r"(?:Invariant|Action property|Temporal property|property) (\S+) is violated")
_RE_COV = re.compile(r"^<(\w+) line \d+, col \d+ to line \d+, col \d+ of module (\w+)(?: \([\d ]+\))?>: (\d+):(\d+)")


def run_tlc(module, cfg=None, env=None, workers=16, timeout=600, simulate=None,
            depth=None, coverage=False, extra=(), heap="6g", seed=None, dfs=False,
            keep_dir=None, cwd=None, libs=()):
    """Run TLC on specs/<module>.tla with specs/<cfg>. Returns TLCResult."""
    res = TLCResult()
    meta = tempfile.mkdtemp(prefix="tlc_meta_")
    cfg = cfg or (module + ".cfg")
    # TLC unpacks its standard modules into java.io.tmpdir on every run: keep that inside the run's own scratch directory
    jtmp = os.path.join(meta, "jtmp")
    os.makedirs(jtmp, exist_ok=True)
    cmd = ["java", "-Xmx" + heap, "-XX:+UseParallelGC", "-XX:ParallelGCThreads=4", "-Djava.io.tmpdir=" + jtmp]
    if dfs:
        cmd.append("-Dtlc2.tool.queue.IStateQueue=StateDeque")
    liblist = list(libs)
    if env and env.get("QA_TLA_LIBRARY"):
        liblist.append(env["QA_TLA_LIBRARY"])
    if liblist:
        cmd.append("-DTLA-Library=" + os.pathsep.join(liblist))
    cmd += ["-cp", JAR, "tlc2.TLC", "-workers", str(workers), "-metadir", meta,
            "-noGenerateSpecTE", "-config", cfg]
    if simulate:
        cmd += ["-simulate", simulate]
    if depth:
        cmd += ["-depth", str(depth)]
    if seed is not None:
        cmd += ["-seed", str(seed)]
    if coverage:
        cmd += ["-coverage", "1"]
    cmd += list(extra)
    cmd.append(module + ".tla")
    e = dict(os.environ)
    e.pop("JAVA_TOOL_OPTIONS", None)
    if env:
        e.update({k: str(v) for k, v in env.items()})
    res.cmd = " ".join(cmd[cmd.index("tlc2.TLC"):])
    t0 = time.time()
    try:
        p = subprocess.run(cmd, cwd=cwd or SPECS, env=e, stdout=subprocess.PIPE,
                           stderr=subprocess.STDOUT, timeout=timeout, text=True,
                           errors="replace")
        out = p.stdout
    except subprocess.TimeoutExpired as ex:
        res.timed_out = True
        out = ex.stdout if isinstance(ex.stdout, str) else (ex.stdout or b"").decode("utf8", "replace")
        subprocess.run(["pkill", "-f", meta], check=False)
    finally:
        res.wall_s = time.time() - t0
        if keep_dir is None:
            shutil.rmtree(meta, ignore_errors=True)
    res.stdout = out
    for m in _RE_STATES.finditer(out):
        res.generated, res.distinct = int(m.group(1)), int(m.group(2))
    m = _RE_DEPTH.search(out)
    if m:
        res.depth = int(m.group(1))
    res.violated = _RE_VIOL.findall(out)
    res.ok = ("No error has been found" in out) and not res.timed_out
    lines = out.splitlines()
    i = 0
    while i < len(lines):
        ln = lines[i]
        if ln.startswith("Error:"):
            blk = [ln]
            j = i + 1
            while j < len(lines) and lines[j].strip() and not lines[j].startswith(("Finished", "The ", "Progress")):
                blk.append(lines[j])
                j += 1
                if len(blk) > 25:
                    break
            res.errors.append("\n".join(blk))
        elif ln.startswith("<<"):
            # a printed tuple; TLC's pretty printer may wrap it over several lines: match brackets
            j, buf = i, ""
            while j < len(lines):
                buf += (" " if buf else "") + lines[j].strip()
                if _balanced(buf):
                    break
                j += 1
            res.prints.append(re.sub(r"<<\s+", "<<", re.sub(r"\s+>>", ">>", buf)))
            i = j
        else:
            mc = _RE_COV.match(ln)
            if mc:
                # (several reports may be printed, and an action may be listed once per disjunct: keep the maximum)
                prev = res.coverage.get(mc.group(1), (0, 0))
                res.coverage[mc.group(1)] = (max(prev[0], int(mc.group(3))), max(prev[1], int(mc.group(4))))
        i += 1
    return res


def _balanced(buf):
    depth, k, instr = 0, 0, False
    while k < len(buf):
        c = buf[k]
        if instr:
            if c == "\\":
                k += 1
            elif c == '"':
                instr = False
        elif c == '"':
            instr = True
        elif buf.startswith("<<", k):
            depth += 1
            k += 1
        elif buf.startswith(">>", k):
            depth -= 1
            k += 1
        k += 1
    return depth <= 0 and not instr


def parse_tuple(line):
    """Parse a TLC-printed flat tuple of strings/ints: <<"REJECT", 3, "clause">> -> list."""
    body = line.strip()[2:-2]
    out = []
    for tok in re.findall(r'"((?:[^"\\]|\\.)*)"|(-?\d+)|(TRUE|FALSE)', body):
        if tok[1] != "":
            out.append(int(tok[1]))
        elif tok[2] != "":
            out.append(tok[2] == "TRUE")
        else:
            out.append(tok[0])
    return out


def sany(module, libdir=None):
    lib = ["-DTLA-Library=" + libdir] if libdir else []
    p = subprocess.run(["java"] + lib + ["-cp", JAR, "tla2sany.SANY", module + ".tla"], cwd=SPECS,
                       stdout=subprocess.PIPE, stderr=subprocess.STDOUT, text=True)
    bad = ("Fatal errors" in p.stdout or "*** Errors" in p.stdout or "Semantic errors" in p.stdout
           or "Could not" in p.stdout or p.returncode != 0)
    return (not bad), p.stdout
