#!/bin/bash
# harness/refrun.sh <patch.diff> <check id> ...   - a BEHAVIOUR-PRESERVING refactoring must not raise any alarm
set -u
PATCH="$1"; shift
cd /repo || exit 2
if ! git diff --quiet; then echo "refusing: /repo has uncommitted changes"; exit 2; fi
git apply "$PATCH" || { echo "patch does not apply"; exit 2; }
trap 'git -C /repo checkout -- . ' EXIT
for id in "$@"; do
  out=$(cd /verif && QUICKADD_OUT="${QUICKADD_OUT:-/tmp/qa_seedout}" ./check "$id" --tier quick 2>&1); rc=$?
  if [ $rc -eq 0 ]; then echo "quiet   $id   $(echo "$out" | grep -c DRIFT) drift notes"; else echo "ALARM($rc) $id: $(echo "$out" | grep -E '^VIOLATION|MACHINERY|Error' | head -2 | cut -c1-260)"; fi
done
