"""One-off generator of specs/lexicon.json from the PINNED tree: expands the finite regular
expressions of the rule base into surface forms with their meaning.  The output is reviewed,
checked in and FROZEN - it is the specification's vocabulary ("conventions fixed by the code and
kept as the specification").  It is never regenerated from the tree under test: a change that
drops `tmrw` must be caught, not followed.  Not run by any check."""
import json
import sys
import re
try:
    import re._parser as sre_parse
except ImportError:
    import sre_parse
sys.path.insert(0, "/verif")
from harness import qa  # noqa
import ctparse.time.rules as R


def expand(pat, ws=(" ",)):
    """All strings of the finite language of pat (case-insensitive patterns, lower-case forms).
    \\s* -> {"", " "}, \\s+ -> {" "}, \\s? -> {"", " "}"""
    tree = sre_parse.parse(pat)

    def seq(items):
        outs = [""]
        for it in items:
            alts = node(it)
            outs = [a + b for a in outs for b in alts]
        return outs

    def node(it):
        op, av = it
        name = str(op)
        if name == "LITERAL":
            return [chr(av)]
        if name == "SUBPATTERN":
            return seq(av[3])
        if name == "BRANCH":
            out = []
            for alt in av[1]:
                out.extend(seq(alt))
            return out
        if name in ("MAX_REPEAT", "MIN_REPEAT"):
            lo, hi, sub = av
            subs = seq(sub)
            is_ws = all(s.isspace() for s in subs) if subs else False
            if is_ws:
                if lo == 0:
                    return ["", " "]
                return [" "]
            assert hi <= 2, (pat, hi)
            out = []
            for k in range(lo, hi + 1):
                cur = [""]
                for _ in range(k):
                    cur = [a + b for a in cur for b in subs]
                out.extend(cur)
            return out
        if name == "IN":
            out = []
            for o, a in av:
                if str(o) == "LITERAL":
                    out.append(chr(a))
                elif str(o) == "CATEGORY" and "SPACE" in str(a):
                    out.append(" ")
                else:
                    raise ValueError((pat, o, a))
            return out
        if name == "AT":
            return [""]
        raise ValueError((pat, name))

    res = []
    for s in seq(tree):
        s = s.lower()
        if s not in res:
            res.append(s)
    return res


lex = {}
lex["dow"] = {str(i): expand(e) for i, (n, e) in enumerate(R._dows)}
lex["month"] = {str(i + 1): expand(e) for i, (n, e) in enumerate(R._months)}
lex["named_hour"] = {str(n): expand(e) for n, e in R._named_ts}
lex["named_hour_suffix"] = ["", "uhr", " uhr", "h", " h", "oclock", " oclock", "o'clock", " o'clock"]
S = qa.REGEX_STR
lex["today"] = expand(S[112])
lex["now"] = expand(S[113])
lex["tomorrow"] = expand(S[114])
lex["after_tomorrow"] = expand(S[115])
lex["yesterday"] = expand(S[116])
lex["before_yesterday"] = expand(S[117])
lex["eom"] = expand(S[118])
lex["eoy"] = expand(S[119])
lex["this"] = expand(S[121])
lex["next"] = expand(S[122])
lex["next_week"] = expand(S[123])
lex["absorb"] = expand(S[100])
lex["from"] = expand(S[101])
lex["of"] = ["of"]
lex["before"] = expand(S[134].replace("(?P<not>not |nicht )?", ""))
lex["not_before"] = [n + w for n in ("not ", "nicht ") for w in ("vor", "before")]
lex["after"] = expand(S[135].replace("(?P<not>not |nicht )?", ""))
lex["not_after"] = [n + w for n in ("not ", "nicht ") for w in ("nach", "after")]
lex["joiner"] = expand(S[136])
lex["quarter_before"] = expand(S[130])
lex["quarter_after"] = expand(S[131])
lex["half_before"] = expand(S[132])
lex["half_after"] = expand(S[133])
lex["midnight"] = expand(S[105])
mods = {"early": [], "late": [], "veryearly": [], "verylate": []}
for v in ("", "sehr ", "very "):
    for e in expand(r"früh(e(r|n|m))?|early"):
        mods[("very" if v else "") + "early"].append(v + e)
    for e in expand(r"spät(e(r|n|m))?|late"):
        mods[("very" if v else "") + "late"].append(v + e)
lex["pod_modifier"] = mods
lex["pod"] = {name: expand(e) for name, e in R._pods}
lex["number_word"] = {str(n): expand(e.replace("\\b", "")) for n, e in R._named_number}
lex["unit"] = {u.value: expand(e.replace("\\b", "")) for u, e in R._durations}
lex["for"] = expand(S[140])
lex["half"] = [h + a for h in expand("hal[fb]e?|1/2") for a in ("", " a", " an")]
lex["dom_suffix"] = ["st", "nd", "rd", "th", "ten", "sten", "ter"]
json.dump(lex, open("/verif/specs/lexicon.raw.json", "w"), ensure_ascii=True, indent=0, sort_keys=True)
tot = 0
for k, v in lex.items():
    n = len(v) if isinstance(v, list) else sum(len(x) for x in v.values())
    tot += n
    print(k, n)
print("total", tot)
