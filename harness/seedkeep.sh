#!/bin/bash
# harness/seedkeep.sh <worktree> <seed name> <property> -- confirm a seeded change and store it
# (1) suite unchanged with the change, (2) demo exits 1 with it, (3) demo exits 0 without it.
set -u
WT="$1"; NAME="$2"; PROP="$3"
D=/verif/seeded/$NAME
cd "$WT" || exit 2
git diff -- ctparse > /tmp/seed_$NAME.diff
[ -s /tmp/seed_$NAME.diff ] || { echo "no change in worktree"; exit 2; }
T=$(PYTHONPATH=$WT /venv/bin/python -m pytest -q -p no:cacheprovider --timeout=900 2>&1 | tail -1)
echo "suite with change: $T"
QA_LIB=$WT /venv/bin/python -W ignore _seed/demo.py > /tmp/seed_$NAME.with 2>&1; RC1=$?
# (git stash is shared between worktrees: reverse-apply the patch instead)
git apply -R /tmp/seed_$NAME.diff
QA_LIB=$WT /venv/bin/python -W ignore _seed/demo.py > /tmp/seed_$NAME.without 2>&1; RC0=$?
git apply /tmp/seed_$NAME.diff
echo "demo with change: exit $RC1; without: exit $RC0"
case "$T" in *"1 failed, 70 passed"*) ;; *) echo "REJECTED: suite changed"; exit 1;; esac
[ $RC1 -eq 1 ] && [ $RC0 -eq 0 ] || { echo "REJECTED: demo does not discriminate"; exit 1; }
mkdir -p $D
cp /tmp/seed_$NAME.diff $D/patch.diff
cp _seed/demo.py $D/demo.py
cp _seed/notes.md $D/notes.md 2>/dev/null
python3 - "$D" "$PROP" "$T" "$RC1" "$RC0" <<'PY'
import json, sys
d, prop, suite, rc1, rc0 = sys.argv[1:6]
notes = open(d + "/notes.md").read() if __import__("os").path.exists(d + "/notes.md") else ""
json.dump({"property": prop, "needs_to_manifest": notes.strip()[:1200],
           "confirmed": {"suite_with_change": suite, "demo_exit_with_change": int(rc1), "demo_exit_without_change": int(rc0),
                         "how": "harness/seedkeep.sh: pytest in the scratch worktree with the change; demo.py with QA_LIB=<worktree> with the change and after git apply -R"},
           "detected_by": []}, open(d + "/meta.json", "w"), indent=1)
PY
echo "KEPT $D"
