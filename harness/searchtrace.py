"""Judging recorded runs of the real engine with specs/SearchTrace.tla (one TLC run per group of
traces that share grammar, candidate sequences and option setting)."""
import json
import os
import shutil
import tempfile
from concurrent.futures import ThreadPoolExecutor

from . import tlc
from .obs import MachineryError

INVS = ["TSound", "TStrictlyBetter", "TDepthOK", "Accepted"]


def judge_group(gr, init_seqs, depth, can_expire, rel, traces, timeout=600, progress=False, yields=None, fulls=None):
    """traces: list of event lists.  Returns (accepted tids (1-based), TLCResult); result.outbad lists
    (tid, clause) verdict-level rejections of what was streamed."""
    tmp = tempfile.mkdtemp(prefix="qa_st_")
    try:
        with open(os.path.join(tmp, "ST.tla"), "w") as fd:
            fd.write("---- MODULE ST ----\nEXTENDS SearchTrace\n" + gr.tla(init_seqs) + "S_Scores == -1000000..1000000\n====\n")
        num, den = rel
        with open(os.path.join(tmp, "ST.cfg"), "w") as fd:
            fd.write("SPECIFICATION TSpec\nCONSTANTS\n  InitSeqs <- G_Init\n  Rewrites <- G_Rules\n  RuleOrder <- G_Order\n"
                     "  Depth = %d\n  Scores <- S_Scores\n  CanExpire = %s\n  RelNum = %d\n  RelDen = %d\n"
                     % (depth, "TRUE" if can_expire else "FALSE", num, den))
            for inv in INVS + (["Progress"] if progress else []):
                fd.write("INVARIANT %s\n" % inv)
            fd.write("CHECK_DEADLOCK FALSE\n")
        path = os.path.join(tmp, "traces.ndjson")
        with open(path, "w") as fd:
            for ti, t in enumerate(traces):
                ys = [{"val": y[0], "s": y[1], "e": y[2], "rules": y[3], "score": y[4]} for y in (yields[ti] if yields else [])]
                fl = fulls[ti] if fulls and fulls[ti] is not None else (yields[ti] if yields else [])
                full = [{"val": y[0], "s": y[1], "e": y[2], "rules": y[3], "score": y[4]} for y in fl]
                fd.write(json.dumps({"ev": [{k: v for k, v in e.items() if not k.startswith("_")} for e in t], "y": ys, "full": full,
                                     "timedout": int(t[-1].get("timedout", 0)) if t else 0}) + "\n")
        r = tlc.run_tlc("ST", cfg="ST.cfg", env={"QA_OBS_FILE": path}, workers=1, timeout=timeout, cwd=tmp,
                        libs=[tlc.SPECS], heap="2g")
        if r.timed_out or (not r.ok and not r.violated):
            raise MachineryError("SearchTrace run failed: %s\n%s" % (r.summary(), "\n".join(r.errors[:3]) or r.stdout[-2000:]))
        acc = set()
        at = {}
        r.outbad = []
        for ln in r.prints:
            t = tlc.parse_tuple(ln)
            if t and t[0] == "ACCEPT":
                acc.add(t[1])
            if t and t[0] == "OUTBAD":
                r.outbad.append((t[1], t[2]))
            if t and t[0] == "AT":
                at[t[1]] = max(at.get(t[1], 0), t[2])
        r.at = at
        return acc, r
    finally:
        shutil.rmtree(tmp, ignore_errors=True)


def judge_groups(groups, parallel=8):
    """groups: list of dict(gr, init, depth, can_expire, rel, traces). Returns list of (accepted, result)."""
    def one(g):
        return judge_group(g["gr"], g["init"], g["depth"], g["can_expire"], g["rel"], g["traces"], yields=g.get("yields"),
                           fulls=[m.get("full") for m in g["meta"]])
    with ThreadPoolExecutor(max_workers=parallel) as ex:
        return list(ex.map(one, groups))
