"""Entry point of ./check."""
import argparse
import importlib
import json
import os
import sys
import traceback

from . import core
from .obs import MachineryError

PROPS = ["C%02d" % i for i in range(1, 21)]


def main(argv=None):
    ap = argparse.ArgumentParser()
    ap.add_argument("what")
    ap.add_argument("--tier", default=os.environ.get("VERIF_TIER", "quick"), choices=["quick", "thorough"])
    ap.add_argument("--replay", default=None)
    a = ap.parse_args(argv)
    seed = int(os.environ.get("VERIF_SEED", "0") or 0)
    if a.what == "setup":
        from . import setup
        return setup.run()
    if a.what == "selftest":
        from . import selftest
        return selftest.run()
    prop = a.what.upper()
    if prop not in PROPS:
        print("unknown property", prop)
        return 2
    try:
        mod = importlib.import_module("harness.props." + prop.lower())
    except ImportError:
        traceback.print_exc()
        return 2
    ctx = core.Ctx(prop, a.tier, seed, mod.LEVEL)
    try:
        if a.replay:
            with open(a.replay) as fd:
                rp = json.load(fd)
            mod.replay(ctx, rp)
        else:
            mod.run(ctx)
        return core.finish(ctx, None)
    except MachineryError as ex:
        print("MACHINERY FAILURE:", ex)
        return 2
    except Exception:  # noqa: BLE001
        traceback.print_exc()
        print("MACHINERY FAILURE (exception in the harness)")
        return 2


if __name__ == "__main__":
    sys.exit(main())
