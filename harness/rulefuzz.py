"""Random, well-typed calls of the registered productions of the tree ("random rule rows").

For a rule, arguments are drawn to satisfy its pattern: real pattern matches (tokens) produced by the
tree's own regex on surface strings, and well-formed values of the kind each predicate asks for,
over the FULL field ranges (not only the boundary picks of the sweeps); the reference time is any
minute 1970-2100 with random seconds.  Every call is one row for RulesTrace (Apply = result,
arguments unchanged, result well formed, no raise)."""
import calendar
import random
from datetime import datetime

from . import grammar as G, qa
from .props import common

T = qa.T
UNITS = ["minutes", "hours", "days", "nights", "weeks", "months"]


def r_ts(rnd):
    y = rnd.choice([rnd.randint(1970, 2100), rnd.choice([1999, 2000, 2016, 2019, 2020, 2024, 2096, 2100])])
    m = rnd.randint(1, 12)
    d = rnd.choice([1, calendar.monthrange(y, m)[1], rnd.randint(1, calendar.monthrange(y, m)[1])])
    return datetime(y, m, d, rnd.choice([0, 23, rnd.randint(0, 23)]), rnd.choice([0, 59, rnd.randint(0, 59)]),
                    rnd.choice([0, 59, rnd.randint(0, 59)]), rnd.choice([0, 999999]))


def r_date(rnd):
    y = rnd.choice([rnd.randint(1900, 2100), 1900, 2000, 2100, 2024])
    m = rnd.randint(1, 12)
    d = rnd.choice([1, calendar.monthrange(y, m)[1], rnd.randint(1, calendar.monthrange(y, m)[1])])
    return y, m, d


def r_pod(rnd):
    return rnd.choice(sorted(T.pod_hours))


def r_tod(rnd, minute=None):
    h = rnd.choice([0, 11, 12, 13, 23, rnd.randint(0, 23)])
    if minute is None:
        minute = rnd.choice([None, 0, rnd.randint(0, 59)])
    return T.Time(hour=h, minute=minute)


def value_for(pred, rnd):
    if pred == "isDOM":
        return T.Time(day=rnd.randint(1, 31))
    if pred == "isMonth":
        return T.Time(month=rnd.randint(1, 12))
    if pred == "isDOW":
        return T.Time(DOW=rnd.randint(0, 6))
    if pred == "isYear":
        return T.Time(year=rnd.choice([rnd.randint(1900, 2100), 1900, 2000, 2100]))
    if pred == "isDOY":
        m = rnd.randint(1, 12)
        return T.Time(month=m, day=rnd.randint(1, 29 if m == 2 else calendar.monthrange(2001, m)[1]))
    if pred == "isPOD":
        return T.Time(POD=r_pod(rnd))
    if pred == "isTOD":
        return r_tod(rnd)
    if pred == "isDate":
        y, m, d = r_date(rnd)
        return T.Time(year=y, month=m, day=d)
    if pred == "isDateTime":
        y, m, d = r_date(rnd)
        t = r_tod(rnd)
        return T.Time(year=y, month=m, day=d, hour=t.hour, minute=t.minute)
    if pred == "hasDate":
        y, m, d = r_date(rnd)
        k = rnd.randrange(3)
        if k == 0:
            return T.Time(year=y, month=m, day=d)
        if k == 1:
            t = r_tod(rnd)
            return T.Time(year=y, month=m, day=d, hour=t.hour, minute=t.minute)
        return T.Time(year=y, month=m, day=d, POD=r_pod(rnd))
    if pred == "hasDOW":
        return T.Time(DOW=rnd.randint(0, 6), POD=rnd.choice([None, r_pod(rnd)]))
    if pred == "isDateInterval":
        y, m, d = r_date(rnd)
        a = datetime(y, m, d)
        from datetime import timedelta
        b = a + timedelta(days=rnd.choice([1, 2, 3, 7, 28, 30, 31, 33, 61, 365, rnd.randint(1, 400)]))
        if b.year > 2100:
            b = a
        return T.Interval(T.Time(year=a.year, month=a.month, day=a.day), T.Time(year=b.year, month=b.month, day=b.day))
    if pred == "Time":
        return value_for(rnd.choice(["isDOM", "isMonth", "isDOW", "isDOY", "isPOD", "isTOD", "isDate", "isDateTime", "hasDate", "isYear"]), rnd)
    if pred == "Interval":
        k = rnd.randrange(6)
        if k == 0:
            # a date-less clock range as the rule base builds it (ruleTODTOD): an arbitrary pair of clock times such as
            # 12:52 - 0:00 is not a value any text produces, and rules that take ranges are only specified on those
            from .props import common
            return qa.RULES["ruleTODTOD"][0](None, r_tod(rnd), common.token("ruleTODTOD", "-"), r_tod(rnd))
        if k == 1:
            return T.Interval(None, r_tod(rnd))
        if k == 2:
            return T.Interval(r_tod(rnd), None)
        if k == 3:
            return T.Interval(T.Time(POD=r_pod(rnd)), T.Time(POD=r_pod(rnd)))
        if k == 4:
            return value_for("isDateInterval", rnd)
        return T.Interval(value_for("isDateTime", rnd), None)
    if pred == "Duration":
        return T.Duration(rnd.choice([0, 1, 2, 31, 60, 1440, rnd.randint(0, 400), rnd.randint(0, 100000)]), T.DurationUnit(rnd.choice(UNITS)))
    raise KeyError(pred)


def _num_clock(rnd):
    h, mi = rnd.randint(0, 23), rnd.randint(0, 59)
    h12 = 12 if h % 12 == 0 else h % 12
    ap = "am" if h < 12 else "pm"
    return rnd.choice(["%d:%02d" % (h, mi), "%02d.%02d" % (h, mi), "%dh%02d" % (h, mi), "%d" % h, "%d uhr" % h, "%dh" % h,
                       "%d:%02d%s" % (h12, mi, ap), "%d %s" % (h12, ap.upper()), "%d:%02d %s.m." % (h12, mi, ap[0]), "%dh %s" % (h12, ap),
                       "%d.%02d uhr" % (h, mi)])


def surface_for(rule, rnd):
    """A surface string the pattern of `rule` matches (random member of its language)."""
    L = G.LEX
    pick = rnd.choice
    if rule == "ruleNamedDOW":
        return pick(L["dow"][str(rnd.randint(0, 6))])
    if rule == "ruleNamedMonth":
        return pick(L["month"][str(rnd.randint(1, 12))])
    if rule == "ruleNamedHour":
        return pick(L["named_hour"][str(rnd.randint(1, 12))]) + pick(["", " uhr", "h", " o'clock"])
    if rule == "ruleMidnight":
        return pick(L["midnight"])
    if rule == "ruleEarlyLatePOD":
        return pick(L["pod_modifier"][pick(sorted(L["pod_modifier"]))])
    if rule == "rulePOD":
        return pick(L["pod"][pick(sorted(L["pod"]))])
    if rule in ("ruleDOM1",):
        return "%d%s" % (rnd.randint(1, 31), pick(["", "."]))
    if rule == "ruleDOM2":
        d = rnd.randint(1, 31)
        return "%d%s" % (d, pick([G.ordinal_suffix(d), "ter", "sten", "th"]))
    if rule == "ruleMonthOrdinal":
        return "%d%s" % (rnd.randint(1, 12), pick(["", "."]))
    if rule == "ruleYear":
        return pick(["%d" % rnd.randint(1900, 2029), "%02d" % rnd.randint(0, 99)])
    table = {"ruleToday": "today", "ruleNow": "now", "ruleTomorrow": "tomorrow", "ruleAfterTomorrow": "after_tomorrow", "ruleYesterday": "yesterday",
             "ruleBeforeYesterday": "before_yesterday", "ruleEOM": "eom", "ruleEOY": "eoy", "ruleAtDOW": "this", "ruleNextDOW": "next",
             "ruleDOWNextWeek": "next_week", "ruleAbsorbOnTime": "absorb", "ruleAbsorbFromInterval": "from", "ruleDOMMonth2": "of",
             "ruleQuarterBeforeHH": "quarter_before", "ruleQuarterAfterHH": "quarter_after", "ruleHalfBeforeHH": "half_before", "ruleHalfAfterHH": "half_after",
             "ruleIntervalConjDuration": "for", "ruleTimeDuration": "for"}
    if rule in table:
        return pick(L[table[rule]])
    if rule in ("ruleDateDate", "ruleDOMDate", "ruleDateDOM", "ruleDOYDate", "ruleDateTimeDateTime", "ruleTODTOD", "rulePODPOD"):
        return pick(L["joiner"])
    if rule == "ruleBeforeTime":
        return pick(L["before"] + L["not_before"])
    if rule == "ruleAfterTime":
        return pick(L["after"] + L["not_after"])
    if rule == "ruleDDMM":
        m = rnd.randint(1, 12)
        return "%d%s%s%s" % (rnd.randint(1, 31), pick([".", "/"]), pick(["%d" % m, "%02d" % m, L["month"][str(m)][0]]), pick(["", "."]))
    if rule == "ruleMMDD":
        m = rnd.randint(1, 12)
        return "%s%s%d" % (pick(["%d" % m, L["month"][str(m)][0]]), pick(["/", "-"]), rnd.randint(1, 31))
    if rule == "ruleDDMMYYYY":
        m = rnd.randint(1, 12)
        sep = pick([".", "/", "-"])
        return "%d%s%s%s%s" % (rnd.randint(1, 31), sep, pick(["%d" % m, "%02d" % m]), sep, pick(["%d" % rnd.randint(1900, 2029), "%02d" % rnd.randint(0, 99)]))
    if rule == "ruleHHMMmilitary":
        return "%02d%02d%s%s" % (rnd.randint(0, 23), rnd.randint(0, 59), pick(["", " uhr", "h", ""]), pick(["", "", " pm", "am"]))
    if rule == "ruleHHMM":
        return _num_clock(rnd)
    if rule == "ruleHHOClock":
        return "%d%s" % (rnd.randint(0, 23), pick([" uhr", "h", " o'clock", " oclock", "uhr"]))
    if rule == "ruleDigitDuration":
        return "%d%s%s" % (pick([0, 1, 2, 31, 120, 1440, rnd.randint(0, 400), rnd.randint(0, 999999)]), pick(["", " "]), pick(L["unit"][pick(UNITS)]))
    if rule == "ruleNamedNumberDuration":
        n = rnd.randint(1, 31)
        return pick(L["number_word"][str(n)]) + " " + pick(L["unit"][pick(UNITS)])
    if rule == "ruleDurationHalf":
        return pick(L["half"]) + " " + pick(L["unit"][pick(UNITS)])
    raise KeyError(rule)


def row(case):
    rnd = random.Random(case["seed"])
    name = case["rule"]
    ts = r_ts(rnd)
    args = []
    tab = qa.registry_table()[name]
    for kind, what in tab:
        if kind == "R":
            s = surface_for(name, rnd)
            rid = what
            m = qa.REGEX[rid].fullmatch(s) or qa.REGEX[rid].search(s)
            if m is None:
                return []          # this surface form is not in the pattern's language in this tree (judged by the lexicon stages)
            args.append(T.RegexMatch(rid, m))
        else:
            args.append(value_for(what, rnd))
    # two values of one kind (ranges): half of the time the second is a NEIGHBOUR of the first - same day, same hour, minute
    # absent / equal / one apart, day one apart ... - where ordering guards are decided
    vals = [i for i, (kind, what) in enumerate(tab) if kind != "R"]
    if len(vals) == 2 and tab[vals[0]][1] == tab[vals[1]][1] and isinstance(args[vals[0]], T.Time) and rnd.random() < 0.5:
        a = args[vals[0]]
        b = T.Time(year=a.year, month=a.month, day=a.day, hour=a.hour, minute=a.minute, DOW=a.DOW, POD=a.POD)
        for _ in range(rnd.choice((0, 1, 2))):
            f = rnd.choice(["minute", "hour", "day"])
            v = getattr(b, f)
            if f == "minute" and b.hour is not None:
                b.minute = rnd.choice([None, 0, v, (v or 0) + 1 if (v or 0) < 59 else 58, max((v or 0) - 1, 0)])
            elif f == "hour" and v is not None:
                b.hour = min(23, max(0, v + rnd.choice((-1, 1, 12, -12))))
            elif f == "day" and v is not None:
                b.day = min(28, max(1, v + rnd.choice((-1, 1))))
        if rnd.random() < 0.5:
            args[vals[0]], args[vals[1]] = b, a
        else:
            args[vals[1]] = b
    r = common.call_rule(name, ts, args)
    return [r] if qa.row_in_model(r) else []


def cases_for(rules, n_per_rule, seed):
    rnd = random.Random(seed)
    out = []
    for r in rules:
        for _ in range(n_per_rule):
            out.append({"rule": r, "seed": rnd.randrange(1 << 40)})
    return out


def post_row(case):
    rnd = random.Random(case["seed"])
    ts = r_ts(rnd)
    def reachable_range():
        # a date-less clock range as the rules build it (ruleTODTOD), not an arbitrary pair of times
        j = common.token("ruleTODTOD", "-")
        return qa.RULES["ruleTODTOD"][0](ts, r_tod(rnd), j, r_tod(rnd))
    v = rnd.choice([lambda: r_tod(rnd), reachable_range, reachable_range, lambda: value_for("Time", rnd),
                    lambda: value_for("isDateInterval", rnd)])()
    r = common.call_post(ts, v)
    return [r] if qa.row_in_model(r) else []


FAMILY = {
    "C03": ["ruleToday", "ruleNow", "ruleTomorrow", "ruleAfterTomorrow", "ruleYesterday", "ruleBeforeYesterday", "ruleEOM", "ruleEOY",
            "ruleNamedDOW", "ruleAtDOW", "ruleNextDOW", "ruleDOWNextWeek", "ruleLatentDOW"],
    "C04": ["ruleLatentDOM", "ruleLatentDOW", "ruleLatentDOY", "ruleLatentPOD", "ruleDOWDOM", "rulePOD", "ruleDOM1", "ruleDOM2", "ruleDDMM", "ruleMMDD",
            "ruleDOMMonth", "ruleDOMMonth2", "ruleMonthDOM", "ruleDOWPOD", "ruleDatePOD", "rulePODDate"],
    "C05": ["ruleDDMMYYYY", "ruleYear", "ruleDOYYear", "ruleDOMMonth", "ruleDOMMonth2", "ruleMonthDOM", "ruleNamedMonth", "ruleMonthOrdinal",
            "ruleDateTOD", "ruleTODDate", "ruleDOWDate", "ruleDateDOW"],
    "C06": ["ruleHHMM", "ruleHHMMmilitary", "ruleHHOClock", "ruleNamedHour", "ruleMidnight", "ruleQuarterBeforeHH", "ruleQuarterAfterHH",
            "ruleHalfBeforeHH", "ruleHalfAfterHH", "ruleTODPOD", "rulePODTOD"],
    "C07": ["ruleDateDate", "ruleDOMDate", "ruleDateDOM", "ruleDOYDate", "ruleDateTimeDateTime", "ruleTODTOD", "rulePODPOD", "ruleDateInterval",
            "rulePODInterval", "ruleBeforeTime", "ruleAfterTime", "ruleAbsorbFromInterval"],
    "C08": ["ruleDigitDuration", "ruleNamedNumberDuration", "ruleDurationHalf", "ruleIntervalConjDuration", "ruleIntervalDuration",
            "ruleDurationInterval", "ruleTimeDuration"],
    "C20": ["ruleDateTOD", "ruleTODDate", "ruleAbsorbOnTime"],
    "C19": ["ruleEarlyLatePOD", "rulePOD", "ruleLatentPOD"],
}
