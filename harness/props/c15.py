"""C15 - the search yields exactly what the rules license (sound, complete, pure)."""
import random

from .. import core, engine, grammar as G, qa
from ..obs import MachineryError

LEVEL = "model_checking"


def corpus_texts():
    from ctparse.time.corpus import corpus
    out = []
    for target, ts, tests in corpus:
        y, rest = ts.split("-", 1)
        from datetime import datetime
        d = datetime.strptime(ts, "%Y-%m-%dT%H:%M")
        for t in tests:
            out.append((t, (d.year, d.month, d.day, d.hour, d.minute)))
    return out


def _rules_of(case):
    from datetime import datetime
    r = qa.CTP.ctparse(case["text"], datetime(*case["ts"]), timeout=0)
    if r is None or r.resolution is None:
        return []
    return sorted({x for x in r.production if not isinstance(x, int)})


_COVER = {}


def corpus_cover(per_rule=3):
    """A sample of the bundled corpus in which every rule that occurs in the winning production of ANY corpus text occurs in at
    least per_rule sampled texts (shortest texts first): the quick tiers take a slice of the corpus plus this cover, so that rare
    rule compositions (date range + duration, ...) are always among the expressions."""
    if per_rule in _COVER:
        return _COVER[per_rule]
    texts = corpus_texts()
    res = core.pmap(_rules_of, [{"text": t, "ts": ts} for t, ts in texts])
    by_rule = {}
    for case, rules, err in res:
        for r in rules or []:
            by_rule.setdefault(r, []).append((case["text"], case["ts"]))
    picked = []
    for r in sorted(by_rule, key=lambda x: len(by_rule[x])):
        have = sum(1 for x in by_rule[r] if x in picked)
        for x in sorted(set(by_rule[r]), key=lambda x: (len(x[0]), x[0])):
            if have >= per_rule:
                break
            if x not in picked:
                picked.append(x)
                have += 1
    _COVER[per_rule] = picked
    return picked


def corpus_sample(quick, seed, k):
    """The corpus texts of a tier: all of them (thorough) or every k-th (phase by seed) plus the rule cover."""
    texts = corpus_texts()
    if not quick:
        return texts
    out = texts[seed % k::k]
    return out + [x for x in corpus_cover() if x not in out]


def obs_text(case):
    o = engine.observe_text(case)
    # duration amounts above 10^6 are outside the model's 32-bit arithmetic (DESIGN.md section 10): not judged by TLC
    if not qa.row_in_model({"x": [o["init"], o["cands"]]}):
        return []
    return o


def obs_rows(case):
    o = engine.observe_text(case)
    return o["_rows"]


def _lat(case):
    from .c09 import obs_lattice
    return obs_lattice(case)


STAGES = {"real-grammar": (obs_text, "DeriveText"), "real-grammar-rows": (obs_rows, "RulesTrace"), "lattice": (_lat, "LatticeTrace")}


def run(ctx):
    rnd = random.Random(ctx.seed)
    ctx.rule_text = ("engine: runs of the real _ctparse on synthetic ground rewrite systems (grammar x text x depth limit x scorer seed), "
                     "each validated as a behaviour of SearchImpl and its output judged against the rewrite system; real grammar: "
                     "(text x depth limit x scorer) runs, every candidate replayed as a derivation by TLC; distinct = distinct run")
    ctx.assumptions += ["pattern matching and the enumeration of candidate sequences are observed, not modelled (the candidate sequences "
                        "the engine scored first are the model's InitSeqs)",
                        "exhaustive closure (sound/complete) only for texts with <= 4 matches per sequence and <= 12 sequences"]
    # R1: every scorer, depth limits, expiry points on small rewrite systems
    quick_cfgs = ["I1_d0", "I1_d0x", "I1_d1", "I2_d2", "I3_d0", "I3_rel0", "I4_d0x"]
    for c in quick_cfgs + ([] if ctx.quick else ["I2_d0", "I2_d0x"]):
        ctx.mc("MC_SearchImpl", "MC_SearchImpl_%s.cfg" % c, timeout=1800, heap="8g")
    # refinement: the code-shaped SearchImpl implements the abstract, order-agnostic Search (no depth limit, no deadline)
    for c in ["I1", "I3"] + ([] if ctx.quick else ["I2"]):
        ctx.mc("MC_SearchRefine", "MC_SearchRefine_%s.cfg" % c, timeout=3600, heap="10g")
    # R2/R3: the real engine on synthetic grammars
    groups = engine.engine_groups(ctx, depths=(0, 1, 2), seeds=10 if ctx.quick else 40, rels=((1, 1), (1, 2)))
    engine.judge_engine_groups(ctx, groups)
    # real grammar
    texts = corpus_texts()
    extra = ["9-5", "tomorrow 9-5", "at 8pm", "on monday at 8", "5.3.2020 for 3 days", "15-16 nov für 1 nacht", "between 8 and 10",
             "early morning", "very late evening tomorrow", "8 8", "morgen früh um 8", "next week monday 10-12",
             # sequences that START with a pattern which occurs again further on (joiners, 'of', 'für', 'next week')
             "und 8 bis 9", "- 1.1. bis 3.1.", "zum 5. bis 7. mai", "of 5th of may", "für 3.3.2021 für 2 tage", "- 8:00 - 9:00",
             "bis montag bis 12", "and 5.3.2021 and 7.3.2021", "to 9 to 5", "next week monday next week", "am am montag",
             # two directly neighbouring matches of the SAME single-pattern rule (the second must be tried as a match position of its own,
             # also when the rule declines the first)
             "donnerstag freitag", "montag dienstag mittwoch", "30.02 01.03", "31.02.2020 01.03.2020", "1401 1400", "8 9", "5. 6.",
             "morgen übermorgen", "september oktober", "abends nachts", "31.4. 1.5. 2.5."]
    texts += [(t, (2018, 3, 7, 12, 43)) for t in G.soups(rnd, 150 if ctx.quick else 1500, 2, 4)]
    texts += [(t, (2018, 3, 7, 12, 43)) for t in extra]
    nkeep = len(extra) + (150 if ctx.quick else 1500)
    if ctx.quick:
        cov = corpus_cover()
        head = [x for i, x in enumerate(texts[:-nkeep]) if i % 3 == ctx.seed % 3]
        texts = head + [x for x in cov if x not in head] + texts[-nkeep:]
    cases = []
    skipped = 0
    for t, ts in texts:
        nm, ns = engine.text_size(t)
        for depth in (0, 1, 10):
            if depth == 0 and (nm > 9 or ns > 30):
                skipped += 1
                continue
            for scorer, seed in (("dummy", 0), ("shipped", 0), ("random", rnd.randrange(1000))) + \
                    ((("random", rnd.randrange(1000)), ("random", rnd.randrange(1000))) if not ctx.quick else ()):
                if ctx.quick and scorer != "dummy" and depth == 1:
                    continue
                cases.append({"text": t, "ts": ts, "depth": depth, "scorer": scorer, "seed": seed, "label": "depth%d" % depth, "form": scorer})
    ctx.note("%d depth-0 runs skipped (more than 9 matches or 30 candidate sequences: exhaustive search not bounded)" % skipped)
    core.run_stage(ctx, "real-grammar", cases, obs_text, "DeriveText", nontrivial=lambda c: (c["text"], c["depth"], c["scorer"], c["seed"]))
    # the candidate sequences themselves: the real lexer + _regex_stack against Lattice.tla (maximal gap-free paths),
    # incl. texts with runs of blanks (raw) and labels cut out of the middle
    from .c09 import obs_lattice
    lat = []
    for t, ts in texts:
        if engine.text_size(t)[1] > 200:
            continue
        lat.append({"text": t})
        ws = qa.CTP._preprocess_string(t).split(" ")
        if len(ws) >= 2:
            k = rnd.randrange(1, len(ws))
            lat.append({"text": " ".join(ws[:k]) + "  " + " ".join(ws[k:]), "raw": True})
            lat.append({"text": " ".join(ws[:k]) + "    " + " ".join(ws[k:]) + " ", "raw": True})
    core.run_stage(ctx, "lattice", lat, obs_lattice, "LatticeTrace", sig_keys=(), nontrivial=lambda c: c["text"])
    sub = [c for c in cases if c["scorer"] == "dummy" and c["depth"] in (0, 10)]
    core.run_stage(ctx, "real-grammar-rows", sub, obs_rows, "RulesTrace", sig_keys=("text",), nontrivial=lambda c: (c["text"], c["depth"]))


def replay(ctx, rp):
    core.generic_replay(ctx, rp, STAGES)
