"""C07 - ranges are built from their two ends, ordered, and wrap sensibly."""
import random
from datetime import datetime, timedelta

from .. import core, e2e, grammar as G, qa
from . import common

LEVEL = "model_checking"
MINV = [(0, 0), (30, 0), (0, 30), (30, 35), (35, 30)]


def rows_for_pair(case):
    a, b = case["pair"]
    T = qa.T
    rows = []
    j = common.token("ruleTODTOD", "-")
    for ts_t in case["tss"]:
        ts = e2e.ts_of(ts_t)
        for (ma, mb) in MINV:
            t1, t2 = T.Time(hour=a, minute=ma), T.Time(hour=b, minute=mb)
            rows.append(common.call_rule("ruleTODTOD", ts, [t1, j, t2]))
            iv = qa.RULES["ruleTODTOD"][0](ts, T.Time(hour=a, minute=ma), j, T.Time(hour=b, minute=mb))
            rows.append(common.call_post(ts, iv))
            # reference times before, at, inside, at the end of and after the written range
            am, bm = a * 60 + ma, b * 60 + mb
            for rmin in sorted({(am - 1) % 1440, am, (am + 1) % 1440, ((am + bm) // 2) % 1440, (bm - 1) % 1440, bm, (bm + 1) % 1440}):
                rows.append(common.call_post(ts.replace(hour=rmin // 60, minute=rmin % 60, second=17), iv))
            for d in case["dates"]:
                date = T.Time(year=d[0], month=d[1], day=d[2])
                iv2 = qa.RULES["ruleTODTOD"][0](ts, T.Time(hour=a, minute=ma), j, T.Time(hour=b, minute=mb))
                rows.append(common.call_rule("ruleDateInterval", ts, [date, iv2]))
        # hour-only ends and part-of-day ranges
        rows.append(common.call_rule("ruleTODTOD", ts, [T.Time(hour=a), j, T.Time(hour=b)]))
        ivh = qa.RULES["ruleTODTOD"][0](ts, T.Time(hour=a), j, T.Time(hour=b))
        rows.append(common.call_post(ts, ivh))
        for p in ("afternoon", "morning", "night"):
            if p in T.pod_hours:
                rows.append(common.call_rule("rulePODInterval", ts, [T.Time(POD=p), qa.RULES["ruleTODTOD"][0](ts, T.Time(hour=a), j, T.Time(hour=b))]))
    return rows


def rows_for_dates(case):
    T = qa.T
    ts = e2e.ts_of(case["ts"])
    d0 = datetime(*case["date"])
    j = common.token("ruleDateDate", "-")
    rows = []
    d1 = T.Time(year=d0.year, month=d0.month, day=d0.day)
    for k in (-400, -31, -1, 0, 1, 2, 27, 30, 31, 365):
        e = d0 + timedelta(days=k)
        d2 = T.Time(year=e.year, month=e.month, day=e.day)
        rows.append(common.call_rule("ruleDateDate", ts, [d1, j, d2]))
        rows.append(common.call_rule("ruleDOMDate", ts, [T.Time(day=d0.day), j, d2]))
        rows.append(common.call_rule("ruleDateDOM", ts, [d1, j, T.Time(day=e.day)]))
        rows.append(common.call_rule("ruleDOYDate", ts, [T.Time(month=d0.month, day=d0.day), j, d2]))
        rows.append(common.call_rule("ruleDateTimeDateTime", ts, [T.Time(year=d0.year, month=d0.month, day=d0.day, hour=9, minute=30), j,
                                                                 T.Time(year=e.year, month=e.month, day=e.day, hour=9, minute=0)]))
    for v in (d1, T.Time(hour=8, minute=0), T.Time(year=d0.year, month=d0.month, day=d0.day, hour=17, minute=30)):
        for rn, words in (("ruleBeforeTime", ("before", "not before", "bis", "nicht vor")), ("ruleAfterTime", ("after", "not after", "ab", "nicht nach"))):
            for w in words:
                rows.append(common.call_rule(rn, ts, [common.token(rn, w), v]))
    return rows


def _diag_range(case, reject):
    """Was the range reading lost to the depth limit of the search (max_stack_depth=10)?  Re-parse exhaustively."""
    if case.get("label") != "named-month":
        return {}
    ts = e2e.ts_of(case["ts"])
    v0, _ = e2e.parse_val(case["text"], ts, max_stack_depth=0)
    v1, _ = e2e.parse_val(case["text"].split(" - ")[0].split(" to ")[0].split(" bis ")[0], ts)
    ok = v0.get("k") == "I" and v0.get("f") == v1
    return {"cause": "pruned-by-depth-limit" if ok else "wrong-with-exhaustive-search"}


STAGES = {
    "rule-rows-clock": (rows_for_pair, "RulesTrace"),
    "rule-rows-dates": (rows_for_dates, "RulesTrace"),
    "e2e-clock-ranges": (e2e.obs_crange, "DenoteTrace"),
    "e2e-date-ranges": (e2e.obs_drange, "DenoteTrace"),
    "e2e-half-open": (e2e.obs_halfopen, "DenoteTrace"),
}


def run(ctx):
    rnd = random.Random(ctx.seed)
    ctx.rule_text = ("cases = (pair of clock times | pair of dates | bound) x joiner x context (explicit date, relative day, weekday, "
                     "no date with/without latent anchoring) x reference time; distinct = distinct (stage, text, context, reference time)")
    ctx.assumptions += ["clock ends are written H:MM (bare numbers '9-5' only as an extra notation: 'between 8 and 10' style bare numbers are also days of month)",
                        "an end that is not after the start may be moved 12 h later or to the next day (both accepted, as the property states)"]
    ctx.mc("MC_Denote", "MC_Denote_C07_q.cfg" if ctx.quick else "MC_Denote_C07_t.cfg", timeout=3000)
    common.random_rows_stage(ctx, "C07", post=True)
    tss = [(2019, 12, 31, 12, 43), (2020, 2, 28, 23, 30)] + ([] if ctx.quick else [(2021, 6, 15, 0, 0), (2020, 2, 29, 9, 0)])
    dates = [(2019, 12, 31), (2020, 2, 28)] + ([] if ctx.quick else [(2020, 2, 29), (2021, 4, 30)])
    cases = [{"pair": (a, b), "tss": tss, "dates": dates} for a in range(24) for b in range(24)]
    core.run_stage(ctx, "rule-rows-clock", cases, rows_for_pair, "RulesTrace", sig_keys=(), nontrivial=lambda c: c["pair"])
    days = list(e2e.all_days(2019, 2021 if ctx.quick else 2024))
    cases = [{"date": d, "ts": (2018, 3, 7, 12, 43)} for i, d in enumerate(days) if ctx.quick is False or i % 5 == rnd.randrange(5) or d[2] >= 28]
    core.run_stage(ctx, "rule-rows-dates", cases, rows_for_dates, "RulesTrace", sig_keys=(), nontrivial=lambda c: c["date"])

    # ---- end to end: clock ranges -------------------------------------------------------------
    ts0 = (2018, 3, 7, 12, 43)
    day_ctx = [("date", "5.3.2020", G.day("date", 5, 3, 2020)), ("relday", "tomorrow", G.day("rel", 1)),
               ("weekday", "friday", G.day("dow", 4)), ("date-yearend", "31.12.2019", G.day("date", 31, 12, 2019))]
    cases = []
    pairs = [(a, b) for a in range(24) for b in range(24)]
    for (a, b) in pairs:
        mvs = [(0, 0)] + ([(30, 35)] if (a + b) % 4 == 0 or not ctx.quick else []) + ([] if ctx.quick else [(35, 30), (30, 0)])
        for (ma, mb) in mvs:
            A, B = G.clock(a, ma), G.clock(b, mb)
            at, bt = G.clock_text(a, ma), G.clock_text(b, mb)
            # every pair with "-" on one date, without a date (latent on / off)
            for lab, dtxt, D in (day_ctx[:1] if ctx.quick else day_ctx):
                cases.append({"text": dtxt + " " + at + "-" + bt, "ctx": "date", "D": D, "A": A, "B": B, "ts": ts0,
                              "label": "on-" + lab, "form": "join:-"})
            cases.append({"text": at + "-" + bt, "ctx": "latent", "A": A, "B": B, "ts": ts0, "label": "latent", "form": "join:-"})
            cases.append({"text": at + " - " + bt, "ctx": "latent", "A": A, "B": B, "ts": (2019, 12, 31, 23, 59), "label": "latent", "form": "join: - "})
            cases.append({"text": at + "-" + bt, "ctx": "bare", "A": A, "B": B, "ts": ts0, "label": "bare", "form": "join:-"})
            if (a * 7 + b) % 5 == ctx.seed % 5 or not ctx.quick:
                am, bm = a * 60 + ma, b * 60 + mb
                for rmin in sorted({am, ((am + bm) // 2) % 1440, bm, (am + 1) % 1440}):
                    cases.append({"text": at + " - " + bt, "ctx": "latent", "A": A, "B": B, "ts": (2020, 2, 29, rmin // 60, rmin % 60, 33),
                                  "label": "latent", "form": "reference inside/at the range"})
    # every joiner on a subset of pairs, every context
    jp = [(9, 17), (9, 5), (23, 3), (0, 0), (12, 0), (8, 8), (13, 14), (11, 12), (7, 19), (20, 6), (5, 9), (22, 23)]
    for (a, b) in jp:
        A, B = G.clock(a, 0), G.clock(b, 0)
        at, bt = G.clock_text(a, 0), G.clock_text(b, 0)
        for jl, text in G.range_texts(at, bt):
            for lab, dtxt, D in day_ctx:
                cases.append({"text": dtxt + " " + text, "ctx": "date", "D": D, "A": A, "B": B, "ts": ts0,
                              "label": "on-" + lab, "form": jl})
            cases.append({"text": text, "ctx": "latent", "A": A, "B": B, "ts": ts0, "label": "latent", "form": jl})
    # "morgen" (tomorrow | in the morning) in front of a range of afternoon / evening hours can only be tomorrow: every joiner
    for (a, b) in [(14, 16), (13, 18), (15, 23), (23, 3), (20, 21)]:
        A, B = G.clock(a, 0), G.clock(b, 0)
        for jl, text in G.range_texts(G.clock_text(a, 0), G.clock_text(b, 0)):
            for ts in (ts0, (2020, 3, 15, 10, 30)):
                cases.append({"text": "morgen " + text, "ctx": "date", "D": G.day("rel", 1), "A": A, "B": B, "ts": ts, "label": "on-morgen-afternoon", "form": jl})
    # the classic bare-number notation
    for (a, b) in [(9, 5), (9, 17), (8, 13), (10, 12), (3, 4)]:
        cases.append({"text": "tomorrow %d-%d" % (a, b), "ctx": "date", "D": G.day("rel", 1), "A": G.clock(a, 0), "B": G.clock(b, 0),
                      "ts": ts0, "label": "on-relday", "form": "bare-hours"})
    core.run_stage(ctx, "e2e-clock-ranges", cases, e2e.obs_crange, "DenoteTrace")

    # ---- date ranges ------------------------------------------------------------------------------
    cases = []
    base = [datetime(2019, 12, 30), datetime(2020, 2, 27), datetime(2021, 4, 30), datetime(2020, 1, 1)]
    for d0 in base:
        for k in (-366, -31, -1, 0, 1, 2, 3, 31, 366):
            e = d0 + timedelta(days=k)
            D1, D2 = G.day("date", d0.day, d0.month, d0.year), G.day("date", e.day, e.month, e.year)
            for f1, f2 in (("%d.%d.%d", "%d.%d.%d"), ("%02d.%02d.%d", "%02d.%02d.%d")):
                t1, t2 = f1 % (d0.day, d0.month, d0.year), f2 % (e.day, e.month, e.year)
                for jl, text in G.range_texts(t1, t2):
                    if jl in ("join:/",):
                        continue      # d.m.yyyy/d.m.yyyy: the slash is also a date separator
                    cases.append({"text": text, "D1": D1, "D2": D2, "ts": ts0, "label": "dates", "form": jl})
    # ranges whose ends are relative days, weekdays, day+month: each end denotes what it denotes alone
    mixed = [("tomorrow", G.day("rel", 1)), ("today", G.day("rel", 0)), ("31.12.2029", G.day("date", 31, 12, 2029)), ("1.1.2017", G.day("date", 1, 1, 2017)),
             ("friday", G.day("dow", 4)), ("monday", G.day("dow", 0)), ("5.3.", G.day("doy", 5, 3)), ("24.12.", G.day("doy", 24, 12)), ("eom", G.day("eom")),
             ("next friday", G.day("nextdow", 4))]
    for t1, D1 in mixed:
        for t2, D2 in mixed:
            if t1 == t2:
                continue
            for ts in (ts0, (2019, 12, 30, 8, 0), (2021, 6, 18, 12, 0)):
                for jl, text in (("join: - ", t1 + " - " + t2), ("join:to", t1 + " to " + t2), ("join:bis", t1 + " bis " + t2)):
                    cases.append({"text": text, "D1": D1, "D2": D2, "ts": ts, "label": "mixed-day-kinds", "form": jl})
    # a year-less start takes the year of a dated end (ruleDOYDate): month ends and neighbouring days, past and future years
    for (d1, m1), (d2, m2) in [((31, 1), (1, 2)), ((31, 3), (1, 4)), ((31, 5), (1, 6)), ((31, 7), (1, 8)), ((31, 8), (1, 9)), ((31, 10), (1, 11)),
                               ((28, 2), (1, 3)), ((30, 4), (1, 5)), ((1, 1), (31, 12)), ((5, 3), (6, 3)), ((29, 2), (1, 3)), ((30, 11), (1, 12)),
                               ((1, 12), (30, 11)), ((6, 3), (5, 3)), ((5, 3), (5, 3))]:
        for y in (2017, 2019, 2020, 2029):
            for ts in (ts0, (2018, 8, 1, 9, 0)):
                cases.append({"text": "%d.%d. - %d.%d.%d" % (d1, m1, d2, m2, y), "D1": G.day("doy", d1, m1), "D2": G.day("date", d2, m2, y), "ts": ts,
                              "label": "doy-date", "form": "join: - "})
    # dates written with a month name, same notation on both ends, every joiner
    for (a, b) in [((5, 3, 2021), (7, 3, 2021)), ((30, 4, 2021), (2, 5, 2021)), ((28, 12, 2019), (3, 1, 2021)), ((7, 3, 2021), (5, 3, 2021))]:
        fa, fb = G.date_forms(*a, numeric=False), G.date_forms(*b, numeric=False)
        for (la, ta, Da), (lb, tb, Db) in zip(fa, fb):
            for jl, text in (("join: - ", ta + " - " + tb), ("join:to", ta + " to " + tb), ("join:bis", ta + " bis " + tb)):
                cases.append({"text": text, "D1": Da, "D2": Db, "ts": ts0, "label": "named-month", "form": jl})
    core.run_stage(ctx, "e2e-date-ranges", cases, e2e.obs_drange, "DenoteTrace", diagnose=_diag_range)

    # ---- before / after ---------------------------------------------------------------------------
    cases = []
    pts = [("date", "5.3.2020", G.day("date", 5, 3, 2020), e2e.NOCLOCK), ("clock", "17:30", e2e.NODAY, G.clock(17, 30)),
           ("datetime", "5.3.2020 17:30", G.day("date", 5, 3, 2020), G.clock(17, 30)), ("relday", "tomorrow", G.day("rel", 1), e2e.NOCLOCK)]
    podwords = {f for fs in G.LEX["pod"].values() for f in fs}
    for side, key in (("until", "before"), ("from", "not_before"), ("from", "after"), ("until", "not_after")):
        for w in G.LEX[key]:
            if w in podwords:
                continue    # homograph: 'earliest', 'latest', 'fruehestens' are also parts of day (first / last)
            for lab, ptxt, D, C in pts:
                cases.append({"text": w + " " + ptxt, "side": side, "D": D, "C": C, "ts": ts0, "label": key + ":" + lab, "form": w})
                # the same word capitalised / in capitals (sentence start; the negation must be read whatever the case)
                if lab in ("date", "clock"):
                    for v in (w.capitalize(), w.upper(), w.title()):
                        if v != w:
                            cases.append({"text": v + " " + ptxt, "side": side, "D": D, "C": C, "ts": ts0, "label": key + ":" + lab + ":case", "form": w})
    core.run_stage(ctx, "e2e-half-open", cases, e2e.obs_halfopen, "DenoteTrace")


def replay(ctx, rp):
    core.generic_replay(ctx, rp, STAGES)
