"""C18 - resolutions compare, hash and print by value; the printed form round-trips."""
import itertools
import json
import os
import random

from .. import core, qa
from ctparse.corpus import parse_nb_string

LEVEL = "exploration"
T = qa.T
# full field ranges, not only real calendar dates: the text form must round-trip 2021-02-29 or 2023-04-31 as well
YS, MS, DS, HS, MIS, WS, PS = [None, 1, 2018, 2021, 9999], [None, 1, 2, 4, 12], [None, 1, 29, 30, 31], [None, 0, 23], [None, 0, 59], [None, 0, 6], [None, "morning", "lateevening"]
FIELDS = [("year", YS), ("month", MS), ("day", DS), ("hour", HS), ("minute", MIS), ("DOW", WS), ("POD", PS)]


def mk(spec, span):
    kind = spec[0]
    if kind == "T":
        o = T.Time(**dict(zip([f for f, _ in FIELDS], spec[1])))
    elif kind == "I":
        o = T.Interval(None if spec[1] is None else mk(spec[1], (0, 1)), None if spec[2] is None else mk(spec[2], (1, 2)))
    else:
        o = T.Duration(spec[1], T.DurationUnit(spec[2]))
    o.mstart, o.mend = span
    return o


def obs_pair(case):
    A = mk(case["A"], (0, 3))
    B = mk(case["B"], (5, 9))
    try:
        RA = qa.val_json(parse_nb_string(A.nb_str()))
    except Exception:  # noqa: BLE001
        RA = {"k": "F"}
    return {"A": qa.val_json(A), "B": qa.val_json(B), "eq": 1 if A == B else 0, "heq": 1 if hash(A) == hash(B) else 0,
            "nbeq": 1 if A.nb_str() == B.nb_str() else 0, "RA": RA}


def obs_gold(case):
    a = parse_nb_string(case["gold"])
    b = parse_nb_string(a.nb_str())
    b.mstart, b.mend = 3, 8
    return {"A": qa.val_json(a), "B": qa.val_json(b), "eq": 1 if a == b else 0, "heq": 1 if hash(a) == hash(b) else 0,
            "nbeq": 1 if a.nb_str() == case["gold"] and b.nb_str() == case["gold"] else 0, "RA": qa.val_json(b)}


STAGES = {"pairs": (obs_pair, "ValueEq"), "gold-strings": (obs_gold, "ValueEq")}


def run(ctx):
    rnd = random.Random(ctx.seed)
    ctx.rule_text = ("cases = pairs (A, B) of one kind built with different spans: every Time over absent/min/max field values paired with itself "
                     "and with every single-field variation, all pairs of intervals over a base of ends (incl. open ends), all pairs of durations "
                     "over amounts x units; plus every gold string of the bundled dataset and corpus; distinct = distinct pair")
    ctx.assumptions += ["level exploration: TLC enumerates and checks the value domain (ValueDomain.tla) and judges every pair, but the property is a "
                        "statement about a pure component - there is no non-trivial state space"]
    ctx.mc("ValueDomain", "MC_ValueDomain.cfg")
    times = list(itertools.product(*[vals for _, vals in FIELDS]))
    if ctx.quick:
        times = [t for i, t in enumerate(times) if i % 5 == ctx.seed % 5]
    cases = []
    for t in times:
        cases.append({"A": ["T", list(t)], "B": ["T", list(t)]})
        for fi, (f, vals) in enumerate(FIELDS):
            for v in vals + ([2019] if f == "year" else []) + (["noon"] if f == "POD" else []):
                if v != t[fi]:
                    u = list(t)
                    u[fi] = v
                    if ctx.quick and rnd.random() > 0.35:
                        continue
                    cases.append({"A": ["T", list(t)], "B": ["T", u]})
    # pairs that differ in TWO fields at once in the way a positional (mixed-radix / packed / concatenated) key would confuse:
    # one field at the edge of its range on one side, the neighbouring field one step further and the first absent / at the
    # other edge on the other side - for every ordered pair of fields
    RANGE = {"year": (1, 9999), "month": (1, 12), "day": (1, 31), "hour": (0, 23), "minute": (0, 59), "DOW": (0, 6)}
    names = [f for f, _ in FIELDS]
    bases = [[2018, 3, 7, 9, 30, 2, None], [None] * 7, [2021, 12, 31, 23, 59, 6, "morning"], [1, 1, 1, 0, 0, 0, None],
             [None, None, None, 9, None, None, None], [2020, 2, 29, None, None, None, None]] + [list(rnd.choice(times)) for _ in range(6 if ctx.quick else 40)]
    for b in bases:
        for i, fi in enumerate(names[:6]):
            for j, fj in enumerate(names[:6]):
                if i == j:
                    continue
                lo, hi = RANGE[fj]
                for edge in (hi, lo):
                    A = list(b)
                    A[j] = edge
                    if A[i] is None:
                        A[i] = RANGE[fi][0] + 1
                    for step in (1, -1):
                        vi = A[i] + step
                        if not (RANGE[fi][0] <= vi <= RANGE[fi][1]):
                            continue
                        for other in (None, lo, hi):
                            B = list(A)
                            B[i] = vi
                            B[j] = other
                            cases.append({"A": ["T", A], "B": ["T", B]})
                            cases.append({"A": ["I", ["T", A], None], "B": ["I", ["T", B], None]})
    # random variations of two and three fields over the full ranges
    for _ in range(4000 if ctx.quick else 60000):
        A = [rnd.choice([None, rnd.randint(*RANGE[f])]) for f in names[:6]] + [rnd.choice(PS)]
        B = list(A)
        for i in rnd.sample(range(7), rnd.choice((2, 3))):
            B[i] = rnd.choice(PS) if i == 6 else rnd.choice([None, rnd.randint(*RANGE[names[i]]), (A[i] or 0) + 1 if (A[i] or 0) + 1 <= RANGE[names[i]][1] else None])
        cases.append({"A": ["T", A], "B": ["T", B]})
    base = [None, ["T", [2018, 3, 7, None, None, None, None]], ["T", [2018, 3, 7, 9, 0, None, None]], ["T", [2018, 3, 8, None, None, None, None]],
            ["T", [None, None, None, 9, 0, None, None]], ["T", [None, None, None, 17, None, None, None]], ["T", [None, None, None, None, None, None, "morning"]],
            ["T", [2018, 3, 7, None, None, None, "evening"]]]
    ivs = [["I", a, b] for a in base for b in base]
    for a in ivs:
        for b in (ivs if not ctx.quick else rnd.sample(ivs, 12) + [a]):
            cases.append({"A": a, "B": b})
    durs = [["D", n, u] for n in (0, 1, 2, 31, 120) for u in ("minutes", "hours", "days", "nights", "weeks", "months")]
    for a in durs:
        for b in durs:
            cases.append({"A": a, "B": b})
    core.run_stage(ctx, "pairs", cases, obs_pair, "ValueEq", sig_keys=(), nontrivial=lambda c: json.dumps([c["A"], c["B"]]))
    golds = set()
    with open(os.path.join(qa.REPO, "datasets", "timeparse_corpus.json"), encoding="utf8") as fd:
        for e in json.load(fd):
            golds.add(e["gold_parse"])
    from ctparse.time.corpus import corpus
    for target, ts, tests in corpus:
        golds.add(target)
    cases = [{"gold": g} for g in sorted(golds)]
    core.run_stage(ctx, "gold-strings", cases, obs_gold, "ValueEq", sig_keys=(), nontrivial=lambda c: c["gold"])
    ctx.exhaustive = not ctx.quick


def replay(ctx, rp):
    core.generic_replay(ctx, rp, STAGES)
