"""C04 - partial dates resolve to the nearest future occurrence, written fields preserved."""
import random

from .. import core, e2e, grammar as G, qa
from . import common

LEVEL = "model_checking"

PAIRS = [(m, d) for m in range(1, 13) for d in range(1, 32)
         if d <= (29 if m == 2 else (30 if m in (4, 6, 9, 11) else 31))]


def rows_for_day(case):
    ts = e2e.ts_of(case["ts"])
    T = qa.T
    rows = []
    for w in range(7):
        rows.append(common.call_rule("ruleLatentDOW", ts, [T.Time(DOW=w)]))
    for d in range(1, 32):
        rows.append(common.call_rule("ruleLatentDOM", ts, [T.Time(day=d)]))
        if case.get("dowdom"):
            rows.append(common.call_rule("ruleDOWDOM", ts, [T.Time(DOW=(d * 3) % 7), T.Time(day=d)]))
    for (m, d) in case["pairs"]:
        rows.append(common.call_rule("ruleLatentDOY", ts, [T.Time(month=m, day=d)]))
    for p in case["pods"]:
        rows.append(common.call_rule("ruleLatentPOD", ts, [T.Time(POD=p)]))
    return rows


def _pod_homograph(form):
    """Second reading the frozen lexicon gives the same surface form (homographs)."""
    if form in G.LEX["tomorrow"]:
        return G.day("rel", 1)
    return None


def pod_forms():
    out = []
    dow_words = {w for fs in G.LEX["dow"].values() for w in fs}
    for pod, forms in G.LEX["pod"].items():
        for f in forms:
            if f.split()[0] in dow_words:
                continue    # "so frueh": the first word is also a weekday abbreviation (homograph)
            out.append(("pod:" + pod, f, G.day("pod", s=pod)))
    return out


STAGES = {
    "e2e-day-pod": (e2e.obs_daypod, "DenoteTrace"),
    "rule-rows": (rows_for_day, "RulesTrace"),
    "e2e-forms": (e2e.obs_day, "DenoteTrace"),
    "e2e-dates": (e2e.obs_day, "DenoteTrace"),
}


def run(ctx):
    rnd = random.Random(ctx.seed)
    ctx.rule_text = ("cases = (weekday | day of month | day+month | part of day, in a surface form of the frozen lexicon) x "
                     "reference time; distinct = distinct (stage, expression/form, reference time)")
    ctx.assumptions += ["surface forms come from the frozen lexicon; a form listed there under two meanings (homograph) may take either",
                        "conventions kept from the code: today's weekday / day of month rolls, today's day+month stays"]
    ctx.mc("MC_Denote", "MC_Denote_C04_q.cfg" if ctx.quick else "MC_Denote_C04_t.cfg", timeout=3000)
    if not ctx.quick:
        ctx.mc("MC_Denote", "MC_Denote_C04_pod.cfg", timeout=3000)
    common.random_rows_stage(ctx, "C04")
    allpods = sorted(qa.T.pod_hours)
    basepods = [p for p in qa.PODS if p in qa.T.pod_hours]
    days = list(e2e.all_days())
    step = 9 if ctx.quick else 2       # thorough: every second day of the 28-year cycle (seed-dependent phase), ~3.5 M rows
    off = rnd.randrange(step)
    sel = [d for i, d in enumerate(days) if i % step == off]
    cases = []
    for d in sel + e2e.boundary_dates():
        near = [(d[1], x) for x in (d[2] - 1, d[2], d[2] + 1) if (d[1], x) in PAIRS]
        pairs = PAIRS if not ctx.quick else sorted(set(near + [(m, dd) for (m, dd) in PAIRS if dd in (1, 28, 29, 30, 31)]))
        cases.append({"ts": d + (12, 43), "pairs": pairs, "pods": basepods if ctx.quick else allpods, "dowdom": True})
    # century years (2100 is not a leap year): 29.2. asked around then must land on 29.2.2104
    for d in [(2100, 2, 27), (2100, 2, 28), (2100, 3, 1), (2099, 12, 31), (2096, 2, 29), (2000, 2, 28)]:
        cases.append({"ts": d + (12, 43), "pairs": [(2, 28), (2, 29), (3, 1), (12, 31)], "pods": basepods, "dowdom": True})
    for hm in [(0, 0), (5, 59), (6, 0), (6, 1), (11, 59), (12, 0), (17, 0), (23, 59)]:
        cases.append({"ts": (2020, 2, 28) + hm, "pairs": [(2, 28), (2, 29), (3, 1)], "pods": allpods})
    core.run_stage(ctx, "rule-rows", cases, rows_for_day, "RulesTrace", sig_keys=(), nontrivial=lambda c: c["ts"], batch=400)

    # end to end
    forms = []
    for w in range(7):
        forms += G.dow_forms(w, kinds=("dow",))
    for d in range(1, 32):
        forms += G.dom_forms(d)
    for (m, d) in PAIRS:
        if ctx.quick and d not in (1, 9, 10, 28, 29, 30, 31):
            continue
        forms += G.doy_forms(d, m, all_months=not ctx.quick)
    pf = pod_forms()
    tss = [(2018, 3, 7, 12, 43), (2019, 1, 31, 0, 0), (2020, 2, 29, 23, 59), (2019, 3, 1, 9, 0)]
    if not ctx.quick:
        tss += [(2023, 12, 31, 23, 59), (2024, 2, 28, 6, 0), (2021, 4, 30, 18, 30)]
    cases = [{"text": t, "D": D, "ts": ts, "label": lab, "form": t} for lab, t, D in forms for ts in tss]
    for lab, t, D in pf:
        d2 = _pod_homograph(t)
        for ts in tss:
            c = {"text": t, "D": D, "ts": ts, "label": lab, "form": t}
            if d2:
                c["D2"] = d2
            cases.append(c)
    core.run_stage(ctx, "e2e-forms", cases, e2e.obs_day, "DenoteTrace")
    # <day> <part of day>: the day as written, the part of day kept (both orders where the rule base has them)
    dp = []
    podw = {"morning": ["morning", "vormittags"[:0] or "morgens"], "forenoon": ["vormittag", "forenoon"], "afternoon": ["afternoon", "nachmittags"],
            "noon": ["noon", "mittags"], "evening": ["evening", "abends"], "night": ["night", "nachts"]}
    dayf = [("rel", "tomorrow", G.day("rel", 1)), ("rel", "today", G.day("rel", 0)), ("date", "5.3.2021", G.day("date", 5, 3, 2021)),
            ("date", "31.12.2019", G.day("date", 31, 12, 2019)), ("doy", "5.3.", G.day("doy", 5, 3)), ("dom", "31.", G.day("dom", 31)),
            ("dow", "friday", G.day("dow", 4)), ("thisdow", "this monday", G.day("thisdow", 0)), ("nextdow", "next sunday", G.day("nextdow", 6))]
    for pod, ws in podw.items():
        if pod not in qa.T.pod_hours:
            continue
        for w in ws:
            if w in G.LEX["tomorrow"]:
                continue
            for lab, dt, D in dayf:
                for ts in tss[:2] + [(2019, 12, 31, 23, 59), (2020, 2, 28, 5, 0)]:
                    dp.append({"text": dt + " " + w, "D": D, "pod": pod, "ts": ts, "label": "daypod:" + lab, "form": w})
                    if lab in ("rel", "date"):
                        dp.append({"text": w + " " + dt, "D": D, "pod": pod, "ts": ts, "label": "poddday:" + lab, "form": w})
    core.run_stage(ctx, "e2e-day-pod", dp, e2e.obs_daypod, "DenoteTrace")
    # one form per expression on many reference dates
    reps = []
    for w in range(7):
        reps.append(G.dow_forms(w, kinds=("dow",))[0])
    for d in range(1, 32):
        reps.append(G.dom_forms(d)[0])
    for (m, d) in PAIRS:
        if d in (1, 15, 28, 29, 30, 31):
            reps.append(G.doy_forms(d, m)[0])
    for p in basepods:
        reps.append(("pod:" + p, [f for f in G.LEX["pod"][p] if not _pod_homograph(f)][0], G.day("pod", s=p)))
    if ctx.quick:
        dates = [d + (12, 43) for d in e2e.boundary_dates()]
    else:
        dates = [d + hm for d in days[ctx.seed % 4::4] for hm in ((0, 0), (23, 59))]
    cases = [{"text": t, "D": D, "ts": ts, "label": lab, "form": t} for lab, t, D in reps for ts in dates]
    core.run_stage(ctx, "e2e-dates", cases, e2e.obs_day, "DenoteTrace", batch=100000)


def replay(ctx, rp):
    core.generic_replay(ctx, rp, STAGES)
