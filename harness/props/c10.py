"""C10 - subject and labels partition the non-time words: nothing invented or leaked."""
import itertools
import random
import re
from datetime import datetime

from .. import core, e2e, grammar as G, qa
from .c09 import inert

LEVEL = "model_checking"
TS = (2018, 3, 7, 12, 43)


def words(s):
    return [w for w in re.split(r"[\s-]+", s or "") if w]


def parse(text):
    sc = qa.WrapScorer(qa.fresh_scorer("shipped"))
    r = qa.CTP.ctparse(text, datetime(*TS), timeout=0, scorer=sc)
    val = {"k": "F"} if r is None or r.resolution is None else qa.val_json(r.resolution)
    return r, val, sc


def used_words(r, sc, text):
    """Words of the normalised text lying wholly inside a pattern match of the candidate sequence the
    returned resolution was built from (restricted to the characters the resolution spans)."""
    if r is None or r.resolution is None:
        return []
    ids = [p for p in r.production if isinstance(p, int)]
    # the text the engine matched on: labels cut out, runs of blanks collapsed (match offsets refer to THIS text)
    txt = re.sub(' +', ' ', re.sub('#[a-zA-Z0-9_-]+', '', qa.CTP._preprocess_string(text)).strip())
    res = []
    for pp in sc.init_pps:
        if [m.id for m in pp.prod] != ids:
            continue
        for m in pp.prod:
            if m.mstart >= r.resolution.mstart and m.mend <= r.resolution.mend:
                for w in re.finditer(r"[^\s-]+", txt):
                    if w.start() >= m.mstart and w.end() <= m.mend and w.group(0) not in res:
                        res.append(w.group(0))
        break
    return res


def obs_subject(case):
    items = case["items"]          # list of [kind, word]
    seps = case["seps"]

    def render(its):
        out = ""
        for (k, w), sp in zip(its, seps):
            out += ("#" + w if k == "H" else w) + sp
        return out
    text = render(items)
    nohash = render([it for it in items if it[0] != "H"])
    notime = render([it for it in items if it[0] != "T"])
    r, val, sc = parse(text)
    r2, val2, _ = parse(nohash)
    r3, val3, _ = parse(notime)
    strnorm = [1 if x.subject == " ".join(words(x.subject)) else 0 for x in (r, r2, r3)]
    return {"items": [{"k": k, "w": w} for k, w in items], "strnorm": strnorm, "labels": list(r.labels), "subj": words(r.subject),
            "used": used_words(r, sc, text), "val": val, "val_nohash": val2, "subj_nohash": words(r2.subject), "labels_nohash": list(r2.labels),
            "labels_notime": list(r3.labels), "subj_notime": words(r3.subject), "val_notime": val3,
            "notime_is_nomatch": 1 if all(k in ("I", "H") for k, w in items if k != "T") else 0, "_text": text}


STAGES = {"arrangements": (obs_subject, "SubjectTrace")}
EXPRS = ["tomorrow 8pm", "friday 8pm-9pm", "5.3.2021", "monday 9:00 - 10:30", "next friday at noon", "31.12. 23:59", "today",
         "10-12-2021", "in 3 days"[3:], "tomorrow morning", "8:30", "monday", "5 march 2021 17:00", "heute 15 uhr", "12.5.",
         # dash-separated dates inside longer expressions (their pieces are words of the text for the subject filter)
         "2-3-2021 from 10 to 11", "05-12-2020", "06-06-2020 - 5-3-2021", "am 17-08-2020 9-5"]
# ordinary words incl. words that contain a '#' without being a hashtag (C#, F#, a lone #): they are words of the subject, and no
# label may be made out of the blank and the word that follow them
ORD = ["the", "and", "mom", "meeting", "dinner", "team", "report", "with", "about", "C#", "F#", "#", "#?", "#!"]
TAGS = ["work", "Family", "a_b", "x-y", "_todo", "Q3", "food", "a", "x", "x1", "team", "team-b", "work2", "Q", "_", "food_"]
# pairs in which one hashtag is a proper prefix of the other (both orders are generated)
PREFIX_PAIRS = [("team", "team-b"), ("x", "x1"), ("a", "a_b"), ("work", "work2"), ("Q", "Q3"), ("food", "food_"), ("_", "_todo")]
SEPS = [" ", "  ", ", ", " ; ", " (", ") ", "\t", " , "]


def run(ctx):
    rnd = random.Random(ctx.seed)
    ctx.rule_text = ("cases = arrangements of inert words, ordinary words, valid hashtags and one time expression (every relative order of the "
                     "item kinds up to 5 items) with the library's separator characters between them; four parses per case (as is, hashtags "
                     "removed, time expression removed); distinct = distinct text")
    ctx.assumptions += ["words are compared after splitting on whitespace and '-' (what the engine's own word splitting does)",
                        "ASCII words and hashtags only (TLC's JSON reader maps other characters to '?')",
                        "'used' words = words wholly inside a pattern match of the candidate sequence the returned resolution was built from"]
    ctx.mc("Subject", "MC_Subject.cfg")
    inerts = [w for w in G.INERT_CANDIDATES if inert(w) and w.isascii()]
    cases = []
    shapes = set()
    for n in range(1, 6):
        for ks in itertools.product("IOHT", repeat=n):
            if ks.count("T") != 1:
                continue
            shapes.add(ks)
    shapes = sorted(shapes)
    if ctx.quick:
        shapes = [s for i, s in enumerate(shapes) if len(s) <= 4 or i % 4 == ctx.seed % 4]
    for ks in shapes:
        for rep in range(3 if ctx.quick else 12):
            expr = rnd.choice(EXPRS)
            items = []
            for k in ks:
                if k == "T":
                    items.append(["T", expr])
                elif k == "I":
                    items.append(["I", rnd.choice(inerts)])
                elif k == "O":
                    items.append(["O", rnd.choice(ORD)])
                else:
                    items.append(["H", rnd.choice(TAGS)])
            seps = [rnd.choice(SEPS) for _ in items]
            seps[-1] = rnd.choice(["", " ", ")"])
            # the T item is several words for the judge
            flat = []
            for k, w in items:
                if k == "T":
                    flat += [["T", x] for x in words(w)]
                else:
                    flat.append([k, w])
            cases.append({"items": items, "flat": flat, "seps": seps, "label": "".join(ks), "form": expr})
            # two hashtags one of which is a prefix of the other, in both orders
            hpos = [i for i, it in enumerate(items) if it[0] == "H"]
            if len(hpos) >= 2 and rep == 0:
                for pa, pb in (rnd.choice(PREFIX_PAIRS), tuple(reversed(rnd.choice(PREFIX_PAIRS)))):
                    items3 = [list(it) for it in items]
                    items3[hpos[0]][1], items3[hpos[1]][1] = pa, pb
                    flat3 = []
                    for kk, w in items3:
                        flat3 += [["T", x] for x in words(w)] if kk == "T" else [[kk, w]]
                    cases.append({"items": items3, "flat": flat3, "seps": seps, "label": "".join(ks) + "+prefix-tags", "form": expr})
            # the same arrangement with a hashtag INSIDE the time expression (between two of its words)
            tw = expr.split(" ")
            if len(tw) >= 2 and rep == 0:
                k = rnd.randrange(1, len(tw))
                items2, seps2 = [], []
                for (kk, w), sp in zip(items, seps):
                    if kk == "T":
                        items2 += [["T", " ".join(tw[:k])], ["H", rnd.choice(TAGS)], ["T", " ".join(tw[k:])]]
                        seps2 += [" ", " ", sp]
                    else:
                        items2.append([kk, w])
                        seps2.append(sp)
                flat2 = []
                for kk, w in items2:
                    flat2 += [["T", x] for x in words(w)] if kk == "T" else [[kk, w]]
                cases.append({"items": items2, "flat": flat2, "seps": seps2, "label": "".join(ks) + "+split", "form": expr})
    core.run_stage(ctx, "arrangements", cases, _obs_flat, "SubjectTrace", cfg="SubjectTrace.cfg", sig_keys=("form",),
                   nontrivial=lambda c: (tuple(map(tuple, c["items"])), tuple(c["seps"])))


def _obs_flat(case):
    o = obs_subject(case)
    o["items"] = [{"k": k, "w": w} for k, w in case["flat"]]
    return o


STAGES["arrangements"] = (_obs_flat, "SubjectTrace")


def replay(ctx, rp):
    core.generic_replay(ctx, rp, STAGES)
