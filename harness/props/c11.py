"""C11 - separators, brackets, dash variants and letter case never change the result."""
import random
import sys
import unicodedata
from datetime import datetime

from .. import core, e2e, grammar as G, qa
from .c15 import corpus_texts

LEVEL = "model_checking"
DASH_EXTRA = set(range(0x2010, 0x2016)) | {0x2043}


def cls_of(ch):
    cat = unicodedata.category(ch)
    if cat == "Pd" or ord(ch) in DASH_EXTRA:
        return "D"
    if cat[0] in "ZC" or cat in ("Ps", "Pe") or ch in ",;":
        return "S"
    return "C"


def out_classes(inp, out):
    """Output as B/H/C string + flag that the C characters are the input's C characters, in order."""
    want = [c for c in inp if cls_of(c) == "C"]
    got = []
    res = []
    for c in out:
        if c == " ":
            res.append("B")
        elif c == "-":
            res.append("H")
        else:
            res.append("C")
            got.append(c)
    return res, 1 if got == want else 0


def obs_pre(case):
    inp = "".join(chr(c) for c in case["cps"])
    out = qa.CTP._preprocess_string(inp)
    again = qa.CTP._preprocess_string(out)
    oc, same = out_classes(inp, out)
    ac, _ = out_classes(out, again)
    return {"cls": [cls_of(c) for c in inp], "out": oc, "same": same, "again": ac}


def obs_variant(case):
    ts = datetime(*case["ts"])
    base, _ = e2e.parse_val(case["base"], ts)
    val, _ = e2e.parse_val(case["text"], ts)
    return {"val": val, "base": base, "checkspan": 0, "s": 0, "e": 0, "xs": 0, "xe": 0}


STAGES = {"codepoints": (obs_pre, "PreprocessTrace"), "class-strings": (obs_pre, "PreprocessTrace"), "escape-strings": (obs_pre, "PreprocessTrace"),
          "variants": (obs_variant, "VariantTrace")}

SEPS = [" ", "  ", "\t", "\n", ",", ";", ", ", " ; ", " ", " ", "​", "　", "(", ")", "[", "]", "（", "）",
        "\u0000", "\u001f", "­", " ", "﻿", " ( ", "{", "}"]
DASHES = ["-", "‐", "‑", "‒", "–", "—", "―", "⁃", "−"[:0] or "⸺", "﹘", "－", "––"]


def run(ctx):
    rnd = random.Random(ctx.seed)
    ctx.rule_text = ("code points: every assigned code point c as 'a'+c+'b' (quick: all separators/dashes/punctuation + a sample of the rest); "
                     "class strings: every string over {separator, dash, char} up to length 6 instantiated with random members; variants: "
                     "corpus and grammar expressions under separator / dash / case substitution; distinct = distinct input")
    ctx.assumptions += ["character classes come from unicodedata of the interpreter (Unicode %s); the regex module may carry newer tables - "
                        "unassigned code points are outside the quantifier" % unicodedata.unidata_version]
    ctx.mc("Preprocess", "MC_Preprocess.cfg")
    # (a) every assigned code point
    cases = []
    for cp in range(sys.maxunicode + 1):
        ch = chr(cp)
        cat = unicodedata.category(ch)
        if cat in ("Cn", "Cs"):
            continue
        if ctx.quick and cat in ("Co", "Lo", "So", "Ll", "Lu", "Mn", "Sm", "Nd", "No", "Mc", "Lm", "Nl", "Sk") and cp % 37 != ctx.seed % 37:
            continue
        cases.append({"cps": [97, cp, 98]})
    core.run_stage(ctx, "codepoints", cases, obs_pre, "PreprocessTrace", cfg="PreprocessTrace.cfg", sig_keys=(),
                   nontrivial=lambda c: c["cps"][1], raise_is_violation=True)
    if not ctx.quick:
        ctx.exhaustive = True
    # (b) class strings up to length 6 with random members
    members = {"S": [ord(c) for s in SEPS for c in s] + [0x2000, 0x200a, 0x1680, 0x85, 0xe000, 0x10fffd, 0x3008, 0xfe5b],
               "D": [ord(c) for d in DASHES for c in d] + [0x058a, 0x1806, 0x301c, 0x30a0],
               "C": [ord(c) for c in "aZ9.#_:/'\"!+&%äß€"] + [0x1f600, 0x0301, 0x4e2d, 0x5d0]}
    cases = []
    import itertools
    for n in range(0, 7 if not ctx.quick else 6):
        for cls in itertools.product("SDC", repeat=n):
            cases.append({"cps": [rnd.choice(members[c]) for c in cls]})
    core.run_stage(ctx, "class-strings", cases, obs_pre, "PreprocessTrace", cfg="PreprocessTrace.cfg", sig_keys=(),
                   nontrivial=lambda c: tuple(c["cps"]))
    # (b2) strings a decoding / canonicalising library would rewrite: to the normaliser they are ordinary characters and separators
    esc = ["&amp;", "&nbsp;", "&ndash;", "&mdash;", "&lt;", "&gt;", "&#59;", "&#x3b;", "&#160;", "&#8211;", "&amp;amp;", "&", "&;", "&#;", "&a;",
           "%20", "%2C", "%3B", "%2D", "%E2%80%93", "%", "%%", "+", "\\n", "\\t", "\\u00a0", "\\x20", "\\", "\\-", "\\,",
           "\ufb01", "\uff12", "\u2103", "\u00aa", "\u2460", "\u00bd", "\u0132", "\u212b", "e\u0301", "\u00e9", "\u1e9e", "\u0130", "\u017f",
           "<b>", "</b>", "<br/>", "$1", "${x}", "{0}", "%s", "%d", "\\1", "\\g<0>", "^", "$", ".*", "(?i)", "[a-z]", "a|b", "\u200d", "\u2060"]
    cases = []
    for e in esc:
        for tpl in ("%s", "a%sb", "%s%s", "8 %s 10", "a %s", "%s b", "a,%s;b", "-%s-"):
            t = tpl.replace("%s", e)
            cases.append({"cps": [ord(c) for c in t]})
    core.run_stage(ctx, "escape-strings", cases, obs_pre, "PreprocessTrace", cfg="PreprocessTrace.cfg", sig_keys=(),
                   nontrivial=lambda c: tuple(c["cps"]))
    # (c) end to end variants
    from .c15 import corpus_sample
    texts = list(corpus_sample(ctx.quick, ctx.seed, 4))
    texts += [(t, (2018, 3, 7, 12, 43)) for t in ["tomorrow 8pm", "monday 9-5", "5.3.2021 9:00 - 10:30", "next friday at noon",
                                                   "3 days", "31.12. 23:59", "call mom tomorrow 8pm"]]
    # every grammar production with letters in it (am/pm markers, weekday, month, part-of-day and unit words ...)
    from .c09 import grammar_exprs
    texts += [(t, (2018, 3, 7, 12, 43)) for t in grammar_exprs(rnd, ctx.quick) if any(c.isalpha() for c in t)]
    # every number word of the lexicon in a duration (ß / umlaut spellings upper-case to SS / Ä: case folding, not just lower())
    for n, forms in sorted(G.LEX["number_word"].items(), key=lambda x: int(x[0])):
        for w in forms:
            if not w.isascii() or int(n) in (1, 2, 12, 30, 31) or (ctx.seed + int(n)) % 5 == 0 or not ctx.quick:
                texts.append((w + " tage", (2018, 3, 7, 12, 43)))
                texts.append(("1.5.2021 für " + w + " nächte", (2018, 3, 7, 12, 43)))
    for key in ("unit", "month", "dow"):
        for k2, forms in G.LEX[key].items():
            for w in forms:
                if not w.isascii():
                    texts.append(("3 " + w if key == "unit" else ("5. " + w if key == "month" else w), (2018, 3, 7, 12, 43)))
    for h in (12, 0, 8, 11):
        for f in ("%dam", "%d am", "%d:30 a.m.", "%dpm", "%d:15 pm", "%d uhr", "%dh"):
            texts.append((f % h, (2018, 3, 7, 12, 43)))
    cases = []
    for t, ts in texts:
        words = t.split(" ")
        vs = []
        for _ in range(2 if ctx.quick else 6):
            sep = [rnd.choice(SEPS) for _ in words]
            vs.append(("separators", rnd.choice(SEPS) + "".join(w + s for w, s in zip(words, sep))))
        if "-" in t:
            for d in rnd.sample(DASHES, 3 if ctx.quick else len(DASHES)):
                vs.append(("dash", t.replace("-", d)))
        vs += [("upper", t.upper()), ("lower", t.lower()), ("title", t.title())]
        for kind, v in vs:
            cases.append({"text": v, "base": t, "ts": ts, "label": kind, "form": kind})
    core.run_stage(ctx, "variants", cases, obs_variant, "VariantTrace", sig_keys=("label",),
                   nontrivial=lambda c: c["text"])


def replay(ctx, rp):
    core.generic_replay(ctx, rp, STAGES)
