"""C05 - absolute dates/times mean what they say, independent of the reference time."""
import random

from .. import core, e2e, grammar as G, qa
from . import common

LEVEL = "model_checking"
DIM = [0, 31, 28, 31, 30, 31, 30, 31, 31, 30, 31, 30, 31]


def dim(y, m):
    return 29 if (m == 2 and (y % 4 == 0 and (y % 100 != 0 or y % 400 == 0))) else DIM[m]


def rows_for_date(case):
    y, m, d = case["date"]
    T = qa.T
    rows = []
    for ts_t in case["tss"]:
        ts = e2e.ts_of(ts_t)
        for txt in ("%d.%d.%d" % (d, m, y), "%02d/%02d/%d" % (d, m, y), "%d-%d-%d" % (d, m, y)) + \
                (("%d.%d.%02d" % (d, m, y - 2000),) if 2000 <= y <= 2029 else ()):
            rows.append(common.call_rule("ruleDDMMYYYY", ts, [common.token("ruleDDMMYYYY", txt)]))
        mtok = common.token("ruleNamedMonth", G.MONTH_EN[m - 1])
        mv = qa.RULES["ruleNamedMonth"][0](ts, mtok)
        rows.append(common.call_rule("ruleNamedMonth", ts, [mtok]))
        dv = qa.RULES["ruleDOM1"][0](ts, common.token("ruleDOM1", "%d." % d))
        rows.append(common.call_rule("ruleDOM2", ts, [common.token("ruleDOM2", "%d%s" % (d, G.ordinal_suffix(d)))]))
        rows.append(common.call_rule("ruleDOMMonth", ts, [dv, mv]))
        rows.append(common.call_rule("ruleMonthDOM", ts, [mv, dv]))
        rows.append(common.call_rule("ruleDOMMonth2", ts, [dv, common.token("ruleDOMMonth2", "of"), mv]))
        ytok = common.token("ruleYear", "%d" % y)
        yv = qa.RULES["ruleYear"][0](ts, ytok)
        rows.append(common.call_rule("ruleYear", ts, [ytok]))
        rows.append(common.call_rule("ruleDOYYear", ts, [T.Time(month=m, day=d), yv]))
        date = T.Time(year=y, month=m, day=d)
        for (H, M) in ((0, 0), (9, 5), (23, 59)):
            rows.append(common.call_rule("ruleDateTOD", ts, [date, T.Time(hour=H, minute=M)]))
            rows.append(common.call_rule("ruleTODDate", ts, [T.Time(hour=H, minute=M), date]))
    return rows


STAGES = {
    "rule-rows": (rows_for_date, "RulesTrace"),
    "e2e-dates": (e2e.obs_day, "DenoteTrace"),
    "e2e-datetimes": (e2e.obs_dayclock, "DenoteTrace"),
}

TSS = [(2018, 3, 7, 12, 43), (1999, 12, 31, 23, 59), (2020, 2, 29, 0, 0), (2029, 6, 30, 18, 5)]
FAR = [(1975, 6, 1, 10, 0), (2055, 3, 3, 3, 3), (2099, 12, 31, 23, 59)]


def run(ctx):
    rnd = random.Random(ctx.seed)
    ctx.rule_text = ("cases = (valid calendar date 1990-2029 [x clock time]) x notation x reference time; distinct = distinct "
                     "(stage, text, reference time)")
    ctx.assumptions += ["two-digit years mean 20yy (convention of the code, kept)",
                        "month-name notations with a stand-alone year that reads as hh:mm with mm a multiple of 5 are excluded (property text)"]
    ctx.mc("MC_Denote", "MC_Denote_C05_q.cfg", timeout=1800)
    common.random_rows_stage(ctx, "C05")
    dates = [(y, m, d) for y in range(1990, 2030) for m in range(1, 13) for d in range(1, dim(y, m) + 1)]
    step = 11 if ctx.quick else 1
    off = rnd.randrange(step)
    sel = [x for i, x in enumerate(dates) if i % step == off or x[2] >= 28 or x[2] == 1]
    if ctx.quick:
        sel = [x for x in sel if x[0] % 3 == off % 3 or x[2] >= 28]
    # "the same for every reference time" includes reference times ON the written date (before / after the clock time), the evening
    # before and the morning after - where 'today'-style heuristics would bite
    def near(x):
        y, m, d = x
        return [(y, m, d, 0, 0), (y, m, d, 12, 43), (y, m, d, 23, 59)]
    cases = [{"date": x, "tss": (TSS[:2] if ctx.quick else TSS) + (FAR if (x[2] == 1 and x[1] in (1, 7)) or not ctx.quick else []) + near(x)}
             for x in sel]
    # dates outside 1990-2029 that the year pattern still accepts, incl. the century rule (1900 is not a leap year)
    cases += [{"date": x, "tss": TSS[:2]} for x in [(1900, 2, 28), (1900, 3, 1), (1999, 12, 31), (1996, 2, 29), (1904, 2, 29), (1950, 6, 15)]]
    core.run_stage(ctx, "rule-rows", cases, rows_for_date, "RulesTrace", sig_keys=(), nontrivial=lambda c: c["date"])
    # end to end
    if ctx.quick:
        years = [1990, 2000, 2019, 2024]
        pick = [(y, m, d) for y in years for m in range(1, 13) for d in (1, 9, 10, 28, 29, 30, 31) if d <= dim(y, m)]
        tss = TSS[:2]
    else:
        # (every 6th date + the month ends: with the same-day reference times every 3rd date took > 90 min on a shared machine)
        pick = [x for i, x in enumerate(dates) if i % 6 == rnd.randrange(6) or x[2] >= 28]
        tss = TSS[:3]
    cases = []
    ccases = []
    for (y, m, d) in pick:
        for lab, text, D in G.date_forms(d, m, y, all_months=False):
            named = "Month" in lab
            if named and G.military_year_like(y):
                continue
            for ts in tss + [(y, m, d, 12, 43)]:
                cases.append({"text": text, "D": D, "ts": ts, "label": lab, "form": lab})
            if d in (1, 31) or not ctx.quick:
                yl = tss[0][0]      # a clock whose digits read as the reference year or the next (20:18 at 2018)
                for (H, M, ctext) in ((9, 5, "9:05"), (23, 59, "23:59"), (15, 30, "3:30pm"),
                                      (yl // 100, yl % 100, "%d:%02d" % (yl // 100, yl % 100)),
                                      ((yl + 1) // 100, (yl + 1) % 100, "%d:%02d" % ((yl + 1) // 100, (yl + 1) % 100))):
                    if M > 59:
                        continue
                    C = G.clock(H, M)
                    ccases.append({"text": text + " " + ctext, "D": D, "C": C, "ts": tss[0], "label": lab + "+clock", "form": lab})
                    ccases.append({"text": ctext + " " + text, "D": D, "C": C, "ts": tss[-1], "label": "clock+" + lab, "form": lab})
                    # the reference time on the written date itself, before and after the written clock time
                    ccases.append({"text": text + " " + ctext, "D": D, "C": C, "ts": (y, m, d, 12, 43), "label": lab + "+clock@same-day", "form": lab})
                    ccases.append({"text": ctext + " " + text, "D": D, "C": C, "ts": (y, m, d, 0, 0), "label": "clock+" + lab + "@same-day", "form": lab})
    # numeric dates (incl. two-digit years = 20yy) under reference times far from the date: 1970s, 2050s, 2099
    far = [(1975, 6, 1, 10, 0), (1949 + 21, 1, 1, 0, 0), (2055, 3, 3, 3, 3), (2099, 12, 31, 23, 59)]
    for (y, m, d) in [(2013, 3, 5), (2029, 12, 31), (2000, 2, 29), (2001, 1, 1), (1999, 12, 31), (2024, 2, 29)]:
        for lab, text, D in G.date_forms(d, m, y, named=False):
            for ts in far:
                cases.append({"text": text, "D": D, "ts": ts, "label": lab, "form": lab + " (far reference time)"})
    core.run_stage(ctx, "e2e-dates", cases, e2e.obs_day, "DenoteTrace")
    core.run_stage(ctx, "e2e-datetimes", ccases, e2e.obs_dayclock, "DenoteTrace")


def replay(ctx, rp):
    core.generic_replay(ctx, rp, STAGES)
