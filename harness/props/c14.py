"""C14 - the returned parse is a best-scoring candidate of the stream; scores are finite."""
import math
import random
from datetime import datetime
from random import Random

from .. import core, engine, grammar as G, qa
from .c15 import corpus_texts

LEVEL = "model_checking"


def codes(s):
    return [ord(c) for c in (s or "")]


class _StepScorer(qa.Scorer):
    """The shipped model quantised to whole numbers: scores of exactly 0.0, exact ties and negative values in one stream
    (what a capped / rounded / coverage-based custom scorer produces)."""

    def __init__(self, div):
        self.inner = qa.fresh_scorer("shipped")
        self.div = div

    def score(self, txt, ts, pp):
        return float(round(self.inner.score(txt, ts, pp) / self.div)) + 0.0

    def score_final(self, txt, ts, pp, prod):
        return float(round(self.inner.score_final(txt, ts, pp, prod) / self.div)) + 0.0


def _scorer(kind, seed):
    if kind == "random":
        return qa.RandomScorer(Random(seed))
    if kind == "step":
        return _StepScorer([1.0, 5.0, 50.0, 500.0][seed % 4])
    return qa.fresh_scorer(kind, seed)


def _cand(c):
    if c is None or c.resolution is None:
        return {"val": {"k": "F"}, "prod": [], "score": None, "subj": codes(getattr(c, "subject", "") if c else ""),
                "labels": [codes(x) for x in (getattr(c, "labels", []) if c else [])]}
    return {"val": qa.val_json(c.resolution), "prod": [str(p) for p in c.production], "score": c.score,
            "subj": codes(c.subject), "labels": [codes(x) for x in c.labels]}


def obs_pair(case):
    ts = datetime(*case["ts"])
    kw = dict(timeout=0, relative_match_len=case["rel"], max_stack_depth=case["depth"], latent_time=bool(case["latent"]))
    # options the caller leaves out fall back to the defaults of EACH entry point: they have to be the same defaults
    for name in case.get("omit", ()):
        kw.pop(name, None)
    sk = {} if "scorer" in case.get("omit", ()) else None
    mk = (lambda: sk) if sk is not None else (lambda: {"scorer": _scorer(case["scorer"], case["seed"])})
    with qa.virtual_clock(lambda: 0.0):      # a frozen clock: the default (wall-clock) timeout never expires
        single = qa.CTP.ctparse(case["text"], ts, **mk(), **kw)
        stream = [c for c in qa.CTP.ctparse_gen(case["text"], ts, **mk(), **kw)]
        kw2 = dict(kw)
        kw2["latent_time"] = False
        pre = [c for c in qa.CTP.ctparse_gen(case["text"], ts, **mk(), **kw2)]
    cs = [_cand(single)] + [_cand(c) for c in stream] + [_cand(c) for c in pre]
    scores = sorted({c["score"] for c in cs if c["score"] is not None and not math.isnan(c["score"])})
    rank = {s: i for i, s in enumerate(scores)}
    for c in cs:
        sc = c.pop("score")
        c["rank"] = -1 if sc is None else rank.get(sc, -2)
        c["fin"] = 1 if (sc is None or math.isfinite(sc)) else 0
    return {"single": cs[0], "stream": cs[1:1 + len(stream)], "pre": cs[1 + len(stream):]}


STAGES = {"api-pairs": (obs_pair, "ApiTrace")}


def run(ctx):
    rnd = random.Random(ctx.seed)
    ctx.rule_text = ("cases = text x reference time x (latent, depth, relative_match_len, scorer); each case = ctparse() vs list(ctparse_gen()) "
                     "under identical arguments + the stream without latent anchoring; distinct = distinct case")
    ctx.assumptions += ["scores enter TLC as ranks (order-preserving projection of the floats of one observation) and a finiteness flag",
                        "no timeout (timeout=0); random scorer seeded identically for both entry points"]
    ctx.mc("MC_SearchImpl", "MC_SearchImpl_I1_d0.cfg")
    ctx.mc("MC_SearchImpl", "MC_SearchImpl_I2_d2.cfg")
    ctx.mc("Api", "MC_Api.cfg")
    # engine level: StrictlyBetter / out judged on runs of the real engine on synthetic grammars
    groups = engine.engine_groups(ctx, depths=(0, 2), seeds=6 if ctx.quick else 30, scores=(0, 1))
    engine.judge_engine_groups(ctx, groups)
    from .c15 import corpus_sample
    texts = list(corpus_sample(ctx.quick, ctx.seed, 4))
    extra = ["", " ", "#tag", "#a #b", "xyzzy", "buy milk", "call #mom tomorrow 8pm", "8", "8 8", "9-5", "tomorrow", "5.3.2020 9:00 #work",
             "lunch friday 12-13", "q", "-", "2020", "12am", "at", "the", "morgen", "1", "31.12.", "in", "um",
             # dashes / separators at the edges leave empty words in the subject: both entry points must agree on it verbatim
             "- lunch 8 pm", "8 pm lunch -", "-8 pm-", "– call mom tomorrow", "tomorrow 8pm -", "- - 8pm lunch - -", "lunch - 8pm",
             "(lunch) 8pm", ", lunch, 8pm,", "lunch 8pm #a -", "- #a lunch 8pm"]
    texts += [(t, (2018, 3, 7, 12, 43)) for t in extra]
    for lab, t, D in G.rel_forms()[::5]:
        texts.append((t, (2020, 2, 29, 23, 59)))
    cases = []
    for t, ts in texts:
        nm, ns = engine.text_size(t)
        for latent in (1, 0):
            for depth in (10, 1, 0):
                if depth == 0 and (nm > 8 or ns > 20):
                    continue
                for rel in (1.0, 0.5, 0.1):
                    for scorer in ("shipped", "dummy", "random", "step"):
                        if ctx.quick and (latent + depth + int(rel * 10) + len(scorer) + len(t)) % 4 and not (t in extra and rel == 1.0 and depth == 10):
                            continue
                        cases.append({"text": t, "ts": ts, "latent": latent, "depth": depth, "rel": rel, "scorer": scorer,
                                      "seed": rnd.randrange(10 ** 6), "label": "opts", "form": "%s/d%d/l%d" % (scorer, depth, latent)})
    # the same pairs with options left out (singly and all together): both entry points must fall back to the same defaults.
    # Texts whose search stack outgrows the default depth limit are where a differing default shows.
    big = [(t, ts) for t, ts in texts if engine.text_size(t)[1] >= 4]
    rnd.shuffle(big)
    for t, ts in big[:120 if ctx.quick else 1200] + [(t, (2018, 3, 7, 12, 43)) for t in extra[:12]]:
        for omit in (["max_stack_depth"], ["relative_match_len"], ["latent_time"], ["timeout"], ["scorer"],
                     ["max_stack_depth", "relative_match_len", "latent_time", "timeout", "scorer"]):
            cases.append({"text": t, "ts": ts, "latent": 1, "depth": 10, "rel": 1.0, "scorer": "shipped", "seed": 0, "omit": omit,
                          "label": "defaults", "form": "omit:" + "+".join(omit)})
    core.run_stage(ctx, "api-pairs", cases, obs_pair, "ApiTrace", cfg="ApiTrace.cfg", sig_keys=("form",),
                   nontrivial=lambda c: (c["text"], c["latent"], c["depth"], c["rel"], c["scorer"], tuple(c.get("omit", ()))))


def replay(ctx, rp):
    core.generic_replay(ctx, rp, STAGES)
