"""C08 - durations keep amount and unit; 'X for N units' ends exactly N units later."""
import random
from datetime import datetime, timedelta

from .. import core, e2e, grammar as G, qa
from . import common

LEVEL = "model_checking"
UNITS = ["minutes", "hours", "days", "nights", "weeks", "months"]


def rows_lexicon(case):
    """Every number word x unit word, and digits, through the tree's own patterns and productions."""
    ts = e2e.ts_of((2018, 3, 7, 12, 43))
    rows = []
    kind, n, u, text = case["kind"], case["n"], case["u"], case["text"]
    rn = {"digit": "ruleDigitDuration", "word": "ruleNamedNumberDuration", "half": "ruleDurationHalf"}[kind]
    rid = [w for k, w in qa.registry_table()[rn] if k == "R"][0]
    m = qa.REGEX[rid].fullmatch(text)
    if m is None:
        # the pattern of the tree does not accept this form of the frozen lexicon at all
        return [{"rule": rn, "ts": qa.ts_json(ts), "a": [{"k": "R", "id": qa.mid(rid), "n1": n, "n2": -1, "n3": -1, "s1": u}],
                 "a2": [{"k": "R", "id": qa.mid(rid), "n1": n, "n2": -1, "n3": -1, "s1": u}], "res": {"k": "F"}, "alias": 0}]
    tok = qa.T.RegexMatch(rid, m)
    row = common.call_rule(rn, ts, [tok])
    # the token's meaning comes from the LEXICON (n, u), not from reading the match
    for key in ("a", "a2"):
        row[key] = [{"k": "R", "id": qa.mid(rid), "n1": n, "n2": -1, "n3": -1, "s1": u}]
    return [row]


def rows_for_date(case):
    T = qa.T
    ts = e2e.ts_of((2018, 3, 7, 12, 43))
    y, m, d = case["date"]
    rows = []
    f = common.token("ruleTimeDuration", "for")
    DU = qa.T.DurationUnit
    for n in case["amounts"]:
        for u in UNITS:
            dur = T.Duration(n, DU(u))
            rows.append(common.call_rule("ruleTimeDuration", ts, [T.Time(year=y, month=m, day=d), f, dur]))
            if n in (1, 31):
                rows.append(common.call_rule("ruleTimeDuration", ts, [T.Time(year=y, month=m, day=d, hour=9, minute=30), f, dur]))
    d0 = datetime(y, m, d)
    for ln in (1, 2, 3, 7, 31):
        e = d0 + timedelta(days=ln)
        for n in (1, 2, 3, 7, 30, 31):
            for u in ("days", "nights", "weeks"):
                def iv():
                    return T.Interval(T.Time(year=y, month=m, day=d), T.Time(year=e.year, month=e.month, day=e.day))
                rows.append(common.call_rule("ruleDurationInterval", ts, [T.Duration(n, DU(u)), iv()]))
                rows.append(common.call_rule("ruleIntervalDuration", ts, [iv(), T.Duration(n, DU(u))]))
                rows.append(common.call_rule("ruleIntervalConjDuration", ts, [iv(), f, T.Duration(n, DU(u))]))
    return rows


STAGES = {
    "lexicon-rows": (rows_lexicon, "RulesTrace"),
    "rule-rows": (rows_for_date, "RulesTrace"),
    "e2e-durations": (e2e.obs_dur, "DenoteTrace"),
    "e2e-for-duration": (e2e.obs_fordur, "DenoteTrace"),
    "e2e-duration-range": (e2e.obs_durrange, "DenoteTrace"),
}


def run(ctx):
    rnd = random.Random(ctx.seed)
    ctx.rule_text = ("cases = (amount, unit) x (digits | number word of the frozen lexicon | half form) x unit word; start dates x amounts "
                     "x units for 'for <duration>'; distinct = distinct (stage, text / date+amount+unit)")
    ctx.assumptions += ["number words and unit words are those of the frozen lexicon (standard spellings sechzehn, siebenundzwanzig, "
                        "einunddreissig included by review)"]
    ctx.mc("MC_Denote", "MC_Denote_C08_q.cfg" if ctx.quick else "MC_Denote_C08_t.cfg", timeout=3000)
    common.random_rows_stage(ctx, "C08")
    # lexicon rows: every number word x every unit word; digits 0..120
    cases = []
    for u in UNITS:
        for uw in G.LEX["unit"][u]:
            for n in list(range(0, 121)) + [365, 999, 1000, 1440, 9999, 10000, 10080, 43200, 99999, 525600, 1000000]:
                if ctx.quick and 32 < n <= 120 and n % 10 not in (0, 9):
                    continue
                cases.append({"kind": "digit", "n": n, "u": u, "text": "%d %s" % (n, uw)})
            for ns, words in G.LEX["number_word"].items():
                for w in words:
                    cases.append({"kind": "word", "n": int(ns), "u": u, "text": w + " " + uw})
    core.run_stage(ctx, "lexicon-rows", cases, rows_lexicon, "RulesTrace", sig_keys=("text",), nontrivial=lambda c: c["text"])
    days = list(e2e.all_days())
    step = 11 if ctx.quick else 1
    off = rnd.randrange(step)
    sel = [d for i, d in enumerate(days) if i % step == off or d[2] >= 28 or d[2] == 1]
    if ctx.quick:
        sel = [d for d in sel if d[0] in (2019, 2020, 2023, 2024, 2031) or d[2] == 31]
    amounts = [0, 1, 2, 12, 28, 31, 60, 1500] if ctx.quick else list(range(0, 61)) + [365, 1500]
    cases = [{"date": d, "amounts": amounts} for d in sel]
    core.run_stage(ctx, "rule-rows", cases, rows_for_date, "RulesTrace", sig_keys=(), nontrivial=lambda c: c["date"])

    # ---- end to end ----------------------------------------------------------------------------------
    ts0 = (2018, 3, 7, 12, 43)
    cases = []
    for u in UNITS:
        for n in ([0, 1, 2, 10, 21, 31, 60, 120, 1440, 10080, 43200, 525600] if ctx.quick else list(range(0, 121)) + [365, 1000, 1440, 9999, 10000, 10080, 43200, 99999, 525600]):
            for lab, text, D in G.duration_forms(n, u, words=False):
                cases.append({"text": text, "n": n, "u": u, "ts": ts0, "label": lab, "form": text.split()[-1] if " " in text else lab})
        for ns in G.LEX["number_word"]:
            for lab, text, D in G.duration_forms(int(ns), u, digits=False):
                cases.append({"text": text, "n": int(ns), "u": u, "ts": ts0, "label": "dur:word", "form": text})
    for h in G.LEX["half"]:
        for u, (n2, u2) in (("hours", (30, "minutes")), ("days", (12, "hours"))):
            for uw in G.LEX["unit"][u]:
                cases.append({"text": h + " " + uw, "n": n2, "u": u2, "ts": ts0, "label": "dur:half", "form": h + " " + uw})
    core.run_stage(ctx, "e2e-durations", cases, e2e.obs_dur, "DenoteTrace")

    cases = []
    starts = [(2020, 1, 31), (2019, 1, 31), (2020, 2, 29), (2019, 12, 31), (2021, 3, 31), (2020, 2, 28), (2023, 10, 31)]
    for (y, m, d) in starts:
        D = G.day("date", d, m, y)
        for u in UNITS:
            for n in ([1, 2, 12, 31, 10080] if ctx.quick else [0, 1, 2, 3, 7, 12, 24, 28, 30, 31, 36, 60, 1440, 10080, 43200]):
                if n > 1000 and u not in ("minutes", "hours"):
                    continue
                uw = {"minutes": "minutes", "hours": "hours", "days": "days", "nights": "nights", "weeks": "weeks", "months": "months"}[u]
                for fw in ("for", "für"):
                    cases.append({"text": "%d.%d.%d %s %d %s" % (d, m, y, fw, n, uw), "D": D, "n": n, "u": u, "ts": ts0,
                                  "label": "fordur:date", "form": fw + ":" + u})
                cases.append({"text": "%d.%d.%d 9:30 for %d %s" % (d, m, y, n, uw), "D": D, "C": G.clock(9, 30), "n": n, "u": u, "ts": ts0,
                              "label": "fordur:datetime", "form": "for:" + u})
    for k, word in ((0, "today"), (1, "tomorrow")):
        for n, u, uw in ((3, "days", "days"), (1, "nights", "night"), (2, "weeks", "weeks"), (1, "months", "month")):
            for ts in ((2019, 12, 31, 10, 0), (2020, 1, 30, 10, 0), (2020, 2, 28, 23, 59)):
                cases.append({"text": "%s for %d %s" % (word, n, uw), "D": G.day("rel", k), "n": n, "u": u, "ts": ts,
                              "label": "fordur:relday", "form": "for:" + u})
    core.run_stage(ctx, "e2e-for-duration", cases, e2e.obs_fordur, "DenoteTrace")

    cases = []
    for (y, m, d) in [(2019, 12, 30), (2020, 2, 27), (2021, 4, 29)]:
        d0 = datetime(y, m, d)
        for ln in (1, 2, 3, 7):
            e = d0 + timedelta(days=ln)
            for n in (1, 2, 3, 5, 7):
                for u, uw in (("days", "days"), ("nights", "nights"), ("days", "tage"), ("nights", "nächte")):
                    rng = "%d.%d.%d - %d.%d.%d" % (d0.day, d0.month, d0.year, e.day, e.month, e.year)
                    D1, D2 = G.day("date", d0.day, d0.month, d0.year), G.day("date", e.day, e.month, e.year)
                    cases.append({"text": "%d %s %s" % (n, uw, rng), "n": n, "u": u, "D1": D1, "D2": D2, "ts": ts0,
                                  "label": "durrange:dur-first", "form": uw})
                    cases.append({"text": "%s %d %s" % (rng, n, uw), "n": n, "u": u, "D1": D1, "D2": D2, "ts": ts0,
                                  "label": "durrange:range-first", "form": uw})
    core.run_stage(ctx, "e2e-duration-range", cases, e2e.obs_durrange, "DenoteTrace")


def replay(ctx, rp):
    core.generic_replay(ctx, rp, STAGES)
