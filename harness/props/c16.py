"""C16 - the scorer is textbook multinomial naive Bayes over 1-3-grams of the rule trace."""
import itertools
import json
import math
import os
import random
import re
import shutil
import tempfile
from datetime import datetime

from .. import core, qa, tlc
from ..obs import MachineryError
from ctparse.nb_scorer import NaiveBayesScorer, train_naive_bayes, save_naive_bayes

LEVEL = "translation_validation"


def tlc_stats(cases):
    """TLC (NBTrace) computes the sufficient statistics for every (docs, labels, query)."""
    tmp = tempfile.mkdtemp(prefix="qa_nb_")
    out = {}
    try:
        gen = dist = 0
        for c0 in range(0, len(cases), 3000):
            part = cases[c0:c0 + 3000]
            path = os.path.join(tmp, "o.ndjson")
            with open(path, "w") as fd:
                for i, c in enumerate(part):
                    fd.write(json.dumps({"id": c0 + i + 1, "docs": [list(d) for d in c["docs"]], "labels": [1 if x else 0 for x in c["labels"]],
                                         "query": list(c["query"])}) + "\n")
            r = tlc.run_tlc("NBTrace", env={"QA_OBS_FILE": path}, workers=1, timeout=900, heap="3g")
            if not r.ok or r.distinct != len(part):
                raise MachineryError("NBTrace failed: %s\n%s" % (r.summary(), "\n".join(r.errors[:2]) or r.stdout[-1500:]))
            gen += r.generated
            dist += r.distinct
            # TLC wraps long tuples over several lines: scan the raw output
            for m in re.finditer(r'<<\s*"NB",(.*?)>>\s*>>', r.stdout, re.S):
                nums = [int(x) for x in re.findall(r"-?\d+", m.group(1))]
                out[nums[0]] = nums[1:]
        return out, gen, dist
    finally:
        shutil.rmtree(tmp, ignore_errors=True)


def textbook(stats):
    npos, nneg, V, Tpos, Tneg = stats[:5]
    flat = stats[5:]
    lp = math.log(npos / (npos + nneg))
    ln = math.log(nneg / (npos + nneg))
    for i in range(0, len(flat), 3):
        c, p, n = flat[i:i + 3]
        lp += c * math.log((p + 1) / (Tpos + V))
        ln += c * math.log((n + 1) / (Tneg + V))
    m = max(lp, ln)
    z = m + math.log(math.exp(lp - m) + math.exp(ln - m))
    return ln - z, lp - z


def impl(case):
    """What the real implementation gives: predict_log_proba, after save+reload, and the score composition."""
    X = [list(d) for d in case["docs"]]
    y = list(case["labels"])
    q = list(case["query"])
    model = train_naive_bayes(X, y)
    p = model.predict_log_proba([q])[0]
    tmp = tempfile.mkdtemp(prefix="qa_nbm_")
    try:
        f = os.path.join(tmp, "m.pbz")
        save_naive_bayes(model, f)
        sc2 = NaiveBayesScorer.from_model_file(f)
        p2 = sc2._model.predict_log_proba([q])[0]
    finally:
        shutil.rmtree(tmp, ignore_errors=True)
    return {"neg": p[0], "pos": p[1], "neg2": p2[0], "pos2": p2[1]}


def composition_case(case):
    """score / score_final = model log-odds + log covered share (x1000 for final) on real partial parses."""
    ts = datetime(2018, 3, 7, 12, 43)
    text = case["text"]
    shipped = qa.CTP._DEFAULT_SCORER
    out = []

    class Spy(qa.Scorer):
        def score(self, txt, ts_, pp):
            s = shipped.score(txt, ts_, pp)
            pr = shipped._model.predict_log_proba([[str(r) for r in pp.rules]])[0]
            cov = pp.prod[-1].mend - pp.prod[0].mstart
            out.append(("score", s, (pr[1] - pr[0]) + math.log(cov / len(txt))))
            return s

        def score_final(self, txt, ts_, pp, prod):
            s = shipped.score_final(txt, ts_, pp, prod)
            pr = shipped._model.predict_log_proba([[str(r) for r in pp.rules]])[0]
            out.append(("final", s, (pr[1] - pr[0]) + 1000 * math.log(len(prod) / len(txt))))
            return s
    list(qa.CTP.ctparse_gen(text, ts, timeout=0, scorer=Spy()))
    # the same partial parse scored by TWO different models (e.g. comparing a retrained model with the shipped one on shared
    # candidates): each score must be THAT model's log-odds + the length term
    other = _other_scorer()

    class Two(qa.Scorer):
        def score(self, txt, ts_, pp):
            return shipped.score(txt, ts_, pp)

        def score_final(self, txt, ts_, pp, prod):
            s = other.score_final(txt, ts_, pp, prod)
            pr = other._model.predict_log_proba([[str(r) for r in pp.rules]])[0]
            out.append(("final-other-model", s, (pr[1] - pr[0]) + 1000 * math.log(len(prod) / len(txt))))
            s2 = other.score(txt, ts_, pp)
            cov = pp.prod[-1].mend - pp.prod[0].mstart
            out.append(("score-other-model", s2, (pr[1] - pr[0]) + math.log(cov / len(txt))))
            return s
    list(qa.CTP.ctparse_gen(text, ts, timeout=0, scorer=Two()))
    bad = [(k, a, b) for k, a, b in out if not (math.isfinite(a) and abs(a - b) <= 1e-9 * max(1.0, abs(a)))]
    return {"n": len(out), "bad": bad[:3]}


_OTHER = None


def _other_scorer():
    """A second model over rule-trace tokens, trained by the harness (deterministic)."""
    global _OTHER
    if _OTHER is None:
        rnd = random.Random(5)
        names = list(qa.RULES) + [str(i) for i in sorted(qa.REGEX)]
        X = [[rnd.choice(names) for _ in range(rnd.randint(1, 7))] for _ in range(60)]
        y = [rnd.random() < 0.5 for _ in X]
        y[0], y[1] = True, False
        _OTHER = NaiveBayesScorer(train_naive_bayes(X, y))
    return _OTHER


def run(ctx):
    rnd = random.Random(ctx.seed)
    ctx.rule_text = ("programs = (training corpus, labels, query document): exhaustive over alphabet {a,b}, <= 3 documents of <= 3 tokens, both classes, "
                     "queries incl. unseen and repeated tokens; seeded random corpora above that; each fitted with the real pipeline and compared "
                     "with the textbook formula evaluated on the sufficient statistics TLC computes (NaiveBayes.tla); plus score composition on "
                     "real partial parses and save/reload invariance; distinct = distinct (corpus, query)")
    ctx.assumptions += ["log/exp are evaluated in Python floats on both sides (tolerance 1e-9); TLC contributes n-gram windows, vocabulary, counts and smoothing denominators",
                        "the training set of the shipped model is not in the repository: for the shipped model only the score composition is checked"]
    ctx.mc("NaiveBayes", "MC_NaiveBayes.cfg")
    docs_all = [d for n in (1, 2, 3) for d in itertools.product("ab", repeat=n)]
    queries = [("a",), ("b", "a"), ("a", "a", "a"), ("c",), ("a", "c", "b"), ("b", "b", "a", "b"), ()]
    cases = []
    for n in (2, 3):
        for docs in itertools.combinations_with_replacement(docs_all, n):
            for labels in itertools.product((True, False), repeat=n):
                if all(labels) or not any(labels):
                    continue
                for q in queries:
                    cases.append({"docs": docs, "labels": labels, "query": q})
    if ctx.quick:
        cases = rnd.sample(cases, 2500)
    toks = ["r%d" % i for i in range(10)] + ["100", "128", "ruleHHMM", "ruleDateTOD"]
    for _ in range(400 if ctx.quick else 6000):
        n = rnd.randint(2, 14)
        docs = tuple(tuple(rnd.choice(toks[:rnd.randint(2, len(toks))]) for _ in range(rnd.randint(1, 9))) for _ in range(n))
        labels = tuple(rnd.random() < rnd.choice((0.2, 0.5, 0.8)) for _ in range(n))
        if all(labels) or not any(labels):
            continue
        q = tuple(rnd.choice(toks + ["unseen"]) for _ in range(rnd.randint(0, 10)))
        cases.append({"docs": docs, "labels": labels, "query": q})
    # long documents of strongly one-sided tokens: the joint log-likelihoods differ by hundreds of nats (log-sum-exp must not overflow)
    for k in range(6 if ctx.quick else 40):
        pos = ["p%d" % i for i in range(rnd.randint(1, 3))]
        neg = ["n%d" % i for i in range(rnd.randint(1, 3))]
        docs = tuple(tuple(rnd.choice(pos) for _ in range(rnd.randint(2, 6))) for _ in range(rnd.randint(2, 5))) + \
            tuple(tuple(rnd.choice(neg) for _ in range(rnd.randint(2, 6))) for _ in range(rnd.randint(2, 5)))
        labels = tuple(all(t.startswith("p") for t in d) for d in docs)
        for side in (pos, neg):
            cases.append({"docs": docs, "labels": labels, "query": tuple(rnd.choice(side) for _ in range(rnd.choice([60, 150, 400])))})
    # extreme class balance: one document of one class against thousands of the other (priors down to 1/3001)
    for n_major in ((40, 1500) if ctx.quick else (40, 400, 1500, 3000)):
        for minority_positive in (True, False):
            docs = tuple([("a",), ("a", "b"), ("b",)][i % 3] for i in range(n_major)) + (("b", "c"),)
            labels = tuple([not minority_positive] * n_major + [minority_positive])
            for q in (("a",), ("b", "c"), ("c", "a", "zz")):
                cases.append({"docs": docs, "labels": labels, "query": q})
    stats, gen, dist = tlc_stats(cases)
    ctx.states += dist
    ctx.transitions += gen
    res = core.pmap(impl, cases)
    disagreements = 0
    for i, (case, out, err) in enumerate(res, 1):
        ctx.nontrivial.add(json.dumps([case["docs"], case["labels"], case["query"]]))
        if err:
            ctx.violation({"stage": "nb-equivalence", "clause": "raised"}, "the real pipeline raised: " + err.strip().splitlines()[-1], dict(case, stage="nb"))
            continue
        en, ep = textbook(stats[i])
        probs = math.exp(out["neg"]) + math.exp(out["pos"])
        clause = None
        if not all(math.isfinite(out[k]) for k in out):
            clause = "non-finite-log-probability"
        elif abs(en - out["neg"]) > 1e-9 or abs(ep - out["pos"]) > 1e-9:
            clause = "differs-from-textbook-multinomial-nb"
        elif abs(probs - 1.0) > 1e-9:
            clause = "probabilities-do-not-sum-to-one"
        elif out["neg"] != out["neg2"] or out["pos"] != out["pos2"]:
            clause = "changed-by-save-and-reload"
        if clause:
            disagreements += 1
            ctx.violation({"stage": "nb-equivalence", "clause": clause},
                          "fitted model vs textbook on %r / query %r: %s (textbook %r, implementation %r)" % (case["docs"], case["query"], clause, (en, ep), out),
                          dict(case, stage="nb", textbook=[en, ep], implementation=out, tlc_stats=stats[i]))
    ctx.evaluations += len(cases)
    ctx.traces += len(cases)
    ctx.sample({"case": cases[0], "tlc_stats": stats[1], "textbook": textbook(stats[1]), "implementation": res[0][1]})
    # score composition under the shipped model, every scoring call of real parses
    from .c15 import corpus_texts
    texts = [t for t, _ in corpus_texts()][ctx.seed % 5::5 if ctx.quick else 1]
    nscore = 0
    for case, out, err in core.pmap(composition_case, [{"text": t} for t in texts]):
        if err:
            raise MachineryError(err)
        nscore += out["n"]
        if out["bad"]:
            disagreements += 1
            ctx.violation({"stage": "score-composition", "clause": "score-is-not-log-odds-plus-length-term"},
                          "%r: %r" % (case["text"], out["bad"]), dict(case, stage="composition", bad=out["bad"]))
    ctx.evaluations += len(texts)
    ctx.extra.update({"programs": len(cases) + len(texts), "disagreements_checked": disagreements, "scoring_calls_checked": nscore})
    # ... and on synthetic partial parses with extreme rule traces (hundreds of repeats of one rule: log-odds of thousands):
    # score / score_final are the model's log-odds + the length term, unclamped
    import types as _types
    nx = 0
    for sc in (qa.CTP._DEFAULT_SCORER, _other_scorer()):
        names = [r for r in qa.RULES][:: 5]
        for rn in names:
            for k in (1, 50, 400, 1500):
                art = qa.T.Time(hour=8)
                art.mstart, art.mend = 2, 9
                pp = _types.SimpleNamespace(rules=tuple([rn] * k), prod=(art,))
                txt = "x" * 40
                try:
                    pr = sc._model.predict_log_proba([[str(r) for r in pp.rules]])[0]
                except Exception as ex:  # noqa: BLE001
                    disagreements += 1
                    ctx.violation({"stage": "score-composition", "clause": "model-raised"}, "%s x %d: predict_log_proba raised %s" % (rn, k, type(ex).__name__),
                                  {"stage": "composition", "rule": rn, "repeats": k, "exc": repr(ex)[:200]})
                    continue
                want_f = (pr[1] - pr[0]) + 1000 * math.log(len(art) / len(txt))
                want_s = (pr[1] - pr[0]) + math.log((art.mend - art.mstart) / len(txt))
                try:
                    got_f = sc.score_final(txt, datetime(2018, 3, 7, 12, 43), pp, art)
                    got_s = sc.score(txt, datetime(2018, 3, 7, 12, 43), pp)
                except Exception as ex:  # noqa: BLE001 - a scorer that raises on an extreme trace is an observation, not a harness failure
                    got_f = got_s = float("nan")
                    disagreements += 1
                    ctx.violation({"stage": "score-composition", "clause": "scorer-raised"}, "%s x %d: the scorer raised %s" % (rn, k, type(ex).__name__),
                                  {"stage": "composition", "rule": rn, "repeats": k, "exc": repr(ex)[:200]})
                    continue
                nx += 2
                for kind, a, b in (("final-extreme-trace", got_f, want_f), ("score-extreme-trace", got_s, want_s)):
                    if not (math.isfinite(a) and abs(a - b) <= 1e-9 * max(1.0, abs(a))):
                        disagreements += 1
                        ctx.violation({"stage": "score-composition", "clause": "score-is-not-log-odds-plus-length-term"},
                                      "%s x %d: %s gives %r, log-odds + length term is %r" % (rn, k, kind, a, b),
                                      {"stage": "composition", "rule": rn, "repeats": k, "kind": kind, "got": a, "want": b})
    nscore += nx
    ctx.stage_counts.update({"nb-equivalence": len(cases), "score-composition-texts": len(texts), "scoring_calls": nscore})


def replay(ctx, rp):
    run(ctx)
