"""C20 - date part and clock part compose: '<day> <time>' is that day at that time."""
import random

from .. import core, e2e, grammar as G, qa
from . import common

LEVEL = "model_checking"


def day_forms(quick):
    out = []
    rel = G.rel_forms()
    seen = set()
    for lab, t, D in rel:
        if D["dk"] in ("now",):
            continue
        key = (D["dk"], D["n1"])
        if quick and key in seen:
            continue
        if t in G.LEX["pod"]["morning"]:
            continue     # "morgen": homograph tomorrow | morning
        seen.add(key)
        out.append((lab, t, D))
    for w in (0, 2, 4, 6) if quick else range(7):
        fs = G.dow_forms(w)
        names = [G.LEX["dow"][str(w)][i] for i in (0, 2)]
        for lab, t, D in fs:
            base = lab.split(":")[0]
            if base == "dow" and t in names:
                out.append((lab, t, D))
            elif base == "thisdow" and lab.split(":")[1] in ("this", "on") and t.split()[-1] == names[1]:
                out.append((lab, t, D))
            elif base == "nextdow" and lab.split(":")[1] in ("next", "nächsten") and t.split()[-1] in names:
                out.append((lab, t, D))
            elif base == "downextweek" and t.split()[0] == names[1]:
                out.append((lab, t, D))
    for d in (1, 15, 31):
        out += [f for f in G.dom_forms(d) if f[0] in ("dom:d.", "dom:dth", "dom:the dth")]
    for (m, d) in ((3, 5), (12, 31), (2, 29)):
        out += G.doy_forms(d, m)[:4] + G.doy_forms(d, m)[5:7]
    for (y, m, d) in ((2021, 3, 5), (2019, 12, 31)):   # not 2020: reads as 20:20 (military-time exclusion of C05)
        out += G.date_forms(d, m, y)[:3] + G.date_forms(d, m, y)[5:9]
    return out


def clock_choices(quick):
    # incl. clock values whose digits read as the reference year / the next year (20:18, 20:19 at a 2018 reference time)
    mins = [(9, 0), (15, 30), (0, 0), (23, 45), (12, 15), (20, 0), (20, 18), (20, 19)] if quick else \
        [(h, mi) for h in (0, 7, 9, 12, 15, 20, 23) for mi in (0, 15, 30, 45, 5)] + [(20, 18), (20, 19), (20, 20), (20, 21)]
    out = []
    for (h, mi) in mins:
        seen = set()
        for lab, t, C in G.clock_forms(h, mi):
            if lab in ("clock:h in the POD", "clock:small hour at night", "clock:hour one at noon"):
                continue          # recorded findings of C06 (the clock part alone is already wrong there)
            if lab == "clock:HHMM" and 1900 <= h * 100 + mi <= 2029:
                continue          # bare 4 digits that are also a year of the vocabulary (2020, 2015): next to a day that is genuinely a year
                                  # as well (the military-time heuristic of C05's exclusion)
            if quick and lab in seen:
                continue
            seen.add(lab)
            out.append((lab, t, C))
    return out


def daykind(label):
    """Coarse class of the day form (for finding signatures)."""
    if label.startswith("date:") and "Month" in label:
        return "date-named-month-with-year"
    if label.startswith("date:"):
        return "date-numeric"
    return label.split(":")[0]


def diagnose(case, reject):
    """Why was the composed text mis-resolved?  Re-parse without the stack-depth limit: if the
    exhaustive search gets it right the beam (max_stack_depth=10) pruned the reading."""
    ts = e2e.ts_of(case["ts"])
    vd, _ = e2e.parse_val(case["day_text"], ts)
    vc, _ = e2e.parse_val(case["clock_text"], ts, latent=False)
    vb, _ = e2e.parse_val(case["text"], ts, max_stack_depth=0)
    ok = (vb.get("k") == "T" and vd.get("k") == "T" and vc.get("k") == "T" and
          all(vb[f] == vd[f] for f in ("y", "m", "d")) and vb["H"] == vc["H"] and max(vb["M"], 0) == max(vc["M"], 0))
    return {"daykind": daykind(case["label"].split(" x ")[0]), "cause": "pruned-by-depth-limit" if ok else "wrong-with-exhaustive-search"}


STAGES = {"e2e-glue": (e2e.obs_glue, "DenoteTrace")}


def run(ctx):
    rnd = random.Random(ctx.seed)
    ctx.rule_text = ("cases = day expression (form of the frozen lexicon) x clock notation x order x connecting word x reference time; "
                     "three parses per case (day alone, clock alone with latent off, both); distinct = distinct (text, reference time)")
    ctx.assumptions += ["excluded as the property grants: a 12:xx clock time directly followed by German 'am <day>'",
                        "homographs of the frozen lexicon (morgen) are not used as day forms"]
    ctx.mc("MC_Denote", "MC_Denote_C20_q.cfg" if ctx.quick else "MC_Denote_C20_t.cfg", timeout=3000)
    common.random_rows_stage(ctx, "C20")
    days = day_forms(ctx.quick)
    clocks = clock_choices(ctx.quick)
    tss = [(2018, 3, 7, 12, 43)] if ctx.quick else [(2018, 3, 7, 12, 43), (2019, 12, 31, 23, 59), (2020, 2, 29, 0, 0)]
    cases = []
    for di, (dl, dt, D) in enumerate(days):
        for ci, (cl, ct, C) in enumerate(clocks):
            if ctx.quick and (di + ci + ctx.seed) % 3 != 0:
                continue
            # thorough: the full cross product is 3.7 M texts (5 h); a seed-dependent 1/16 of the (day, clock) pairs - every day form
            # still meets ~75 clock forms and every clock form ~12 day forms
            if not ctx.quick and (di * 31 + ci * 17 + ctx.seed) % 16 != 0:
                continue
            for ts in tss:
                combos = [("day clock", dt + " " + ct), ("day at clock", dt + " at " + ct), ("day um clock", dt + " um " + ct),
                          ("clock day", ct + " " + dt), ("clock on day", ct + " on " + dt)]
                if not (C["h"] % 12 == 0):
                    combos.append(("clock am day", ct + " am " + dt))
                first = dt.split()[0]
                for ol, text in combos:
                    if ol in ("clock on day", "clock am day") and first in ("on", "at", "am", "this", "the", "diesen", "diesem"):
                        continue      # the day form already starts with a connecting word
                    if ctx.quick and (len(cases) + di) % 2 and ol not in ("day clock", "clock day"):
                        continue
                    cases.append({"text": text, "day_text": dt, "clock_text": ct, "D": D, "C": C, "ts": ts,
                                  "label": dl + " x " + cl, "form": ol})
    # every connecting word of the lexicon that stands in front of a clock time (incl. the dotted abbreviations "ca." / "approx."),
    # day first, on a handful of day and clock forms
    conn = [w for w in G.LEX["absorb"] if w in ("at", "um", "gegen", "ca", "ca.", "approx", "approx.", "about", "around")]
    dsel = [x for x in days if x[1] in ("tomorrow", "morgen", "friday", "5.3.2021", "am 5.3.2021", "next friday", "the 15th")] or days[:6]
    csel = [x for x in clocks if x[1] in ("9:00", "15:30", "8 uhr", "8pm", "20:00", "9:05", "3:30pm")] or clocks[:6]
    for dl, dt, D in dsel:
        for cl, ct, C in csel:
            for w in conn:
                if w in ("um", "gegen") and C["h"] % 12 == 0:
                    continue
                cases.append({"text": dt + " " + w + " " + ct, "day_text": dt, "clock_text": ct, "D": D, "C": C, "ts": tss[0],
                              "label": dl + " x " + cl, "form": "day " + w + " clock"})
    core.run_stage(ctx, "e2e-glue", cases, e2e.obs_glue, "DenoteTrace", sig_keys=("form",), diagnose=diagnose)


def replay(ctx, rp):
    core.generic_replay(ctx, rp, STAGES)
