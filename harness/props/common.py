"""Stages shared by several properties."""
from datetime import datetime, timedelta

from dateutil.relativedelta import relativedelta

from .. import core, qa, e2e

EPOCH = datetime(1970, 1, 1)


def cal_obs(case):
    d = EPOCH + timedelta(days=case["n"])
    ts = d.replace(hour=12, minute=43)

    def days(x):
        return (x.replace(hour=0, minute=0) - EPOCH).days
    import calendar
    return {"n": case["n"], "y": d.year, "m": d.month, "d": d.day, "wd": d.weekday(),
            "dim": calendar.monthrange(d.year, d.month)[1],
            "plus1m": days(ts + relativedelta(months=1)), "plus1y": days(ts + relativedelta(years=1)),
            "day31": days(ts + relativedelta(day=31)), "feb29": days(ts + relativedelta(month=2, day=29)),
            "nextwed": days(ts + relativedelta(weekday=2)), "eom": days(ts + relativedelta(day=1, months=1, days=-1))}


def calendar_binding(ctx, y0=2016, y1=2043):
    """Calendar.tla == datetime/dateutil on every day of the sweep."""
    n0 = (datetime(y0, 1, 1) - EPOCH).days
    n1 = (datetime(y1, 12, 31) - EPOCH).days
    cases = [{"n": n} for n in range(n0, n1 + 1)]
    return core.run_stage(ctx, "calendar-binding", cases, cal_obs, "CalendarTrace", sig_keys=(),
                          nontrivial=lambda c: c["n"], raise_is_violation=False)


# ---- direct rule calls (transition-table rows) ----------------------------------------------------
def token(rule_name, text):
    """A real RegexMatch for the pattern of `rule_name`, produced by the tree's own regex on text."""
    pats = qa.registry_table()[rule_name]
    rid = [w for k, w in pats if k == "R"][0]
    m = qa.REGEX[rid].fullmatch(text)
    if m is None:
        m = qa.REGEX[rid].search(text)
    if m is None:
        raise ValueError("pattern of %s does not match %r" % (rule_name, text))
    return qa.T.RegexMatch(rid, m)


def call_rule(name, ts, args):
    """Call the registered production; return the row judged by RulesTrace."""
    f = qa.RULES[name][0]
    before = [qa.val_json(a) for a in args]
    try:
        res = f(ts, *args)
        rj = qa.val_json(res)
    except Exception:  # noqa: BLE001
        rj = {"k": "E"}
    after = [qa.val_json(a) for a in args]
    return {"rule": name, "ts": qa.ts_json(ts), "a": before, "a2": after, "res": rj, "alias": 0}


def call_post(ts, v):
    """Row for the latent post-processing step applied to value v."""
    from ctparse.time.postprocess_latent import apply_postprocessing_rules
    before = [qa.val_json(v)]
    try:
        rj = qa.val_json(apply_postprocessing_rules(ts, v))
    except Exception:  # noqa: BLE001
        rj = {"k": "E"}
    return {"rule": "postprocess", "ts": qa.ts_json(ts), "a": before, "a2": [qa.val_json(v)], "res": rj, "alias": 0}


def random_rows_stage(ctx, prop, post=False):
    """Random well-typed calls of the productions that implement this property (harness/rulefuzz.py)."""
    from .. import rulefuzz
    n = 120 if ctx.quick else 2500
    cases = rulefuzz.cases_for(rulefuzz.FAMILY[prop], n, ctx.seed * 7919 + 13)
    core.run_stage(ctx, "random-rows", cases, rulefuzz.row, "RulesTrace", sig_keys=("rule",), nontrivial=lambda c: (c["rule"], c["seed"]))
    if post:
        import random as _r
        rnd = _r.Random(ctx.seed + 5)
        pc = [{"rule": "postprocess", "seed": rnd.randrange(1 << 40)} for _ in range(1500 if ctx.quick else 30000)]
        core.run_stage(ctx, "random-postprocess-rows", pc, rulefuzz.post_row, "RulesTrace", sig_keys=("rule",), nontrivial=lambda c: c["seed"])
