"""C19 - the rule base is structurally sound and the shipped model speaks its language."""
import ast
import os
import random
from datetime import datetime

from .. import core, grammar as G, qa
from .c15 import corpus_texts
from . import common

LEVEL = "model_checking"
PROBES = ["", " ", "  ", "a", "8", "8 ", " 8", "am", "at", "1", "12", "2020", "mon", "monday 8pm", "8:30", "8.30", "5.", "1st", "-", "/",
          "h", "m", "uhr", "3 days", "half", "vor", "für", "früh", "spät", "today", "x", ".", ":", "00", "0"]


def export(fired):
    import ctparse.rule as rm
    src = open(os.path.join(qa.REPO, "ctparse", "time", "rules.py"), encoding="utf8").read()
    tree = ast.parse(src)
    ast_names = []
    for node in tree.body:
        if isinstance(node, ast.FunctionDef):
            for d in node.decorator_list:
                f = d.func if isinstance(d, ast.Call) else d
                if isinstance(f, ast.Name) and f.id == "rule":
                    ast_names.append(node.name)
    tab = qa.registry_table()
    reg_names = list(tab)
    patterns = [[{"t": k, "id": int(w) if k == "R" else 0, "n": "" if k == "R" else str(w)} for k, w in tab[n]] for n in reg_names]
    texts = {}
    regex = []
    for rid, txt in sorted(rm._regex_str.items()):
        texts.setdefault(txt, len(texts))
        regex.append({"id": int(rid), "text_id": texts[txt]})
    empty, zero = [], []
    for rid, rx in sorted(rm._regex.items()):
        if rx.match(""):
            empty.append(int(rid))
        for p in PROBES + [t for t, _ in corpus_texts()[::9]]:
            for m in rx.finditer(p, overlapped=True):
                s, e = m.span("R%d" % rid)
                if e <= s:
                    zero.append(int(rid))
                    break
    vocab = []
    sc = qa.CTP._DEFAULT_SCORER
    if hasattr(sc, "_model"):
        for feat in sc._model.transformer.vocabulary:
            for tok in feat.split(" "):
                if tok not in vocab:
                    vocab.append(tok)
    known = reg_names + [str(i) for i in sorted(rm._regex)]
    return {"ast_names": ast_names, "reg_names": reg_names, "patterns": patterns, "regex": regex, "empty_match": sorted(set(empty)),
            "zero_len": sorted(set(zero)), "vocab": vocab, "reg_names_set_str": known, "fired": sorted(fired)}


_PRED_TEXT = {"isDate": "5.3.2021", "isTOD": "8:30", "isDOW": "monday", "Interval": "9:00 - 10:00", "Duration": "3 days", "isPOD": "morning",
              "isDOM": "5th", "isMonth": "march", "isYear": "2019", "isDOY": "5.3.", "isDateTime": "5.3.2021 8:30", "hasDate": "5.3.2021",
              "hasDOW": "monday", "hasTime": "8:30", "hasPOD": "morning", "Time": "5.3.2021", "isDateInterval": "5.3.2021 - 8.3.2021",
              "isTimeInterval": "9:00 - 10:00", "isDOYInterval": "5.3. - 8.3."}


def _regex_samples(rid):
    """Heuristic sample strings for a pattern the frozen lexicon does not know (a rule added to the rule base)."""
    import re as _re2
    import ctparse.rule as rm
    raw = rm._regex_str.get(rid, "")
    rx = rm._regex.get(rid)
    cands = []
    for alt in _re2.split(r"\|", raw):
        c = _re2.sub(r"\(\?P<\w+>|\(\?[:!=<][^)]*|\(\?&\w+\)|[()^$]", "", alt)
        c = c.replace("\\s*", " ").replace("\\s+", " ").replace("\\s", " ").replace("\\b", "").replace("\\.", ".").replace("\\d+", "7").replace("\\d", "7")
        c = _re2.sub(r"(.)\?", r"\1", c)
        c = _re2.sub(r"[*+?\\]", "", c).strip()
        if c:
            cands.append(c)
    return [c for c in cands if rx is not None and rx.search(c)][:6]


def auto_probe(name):
    """Can a rule the model does not know be made to return a value?  True / False(undecided)."""
    tab = qa.registry_table()
    parts = [[]]
    for kind, what in tab[name]:
        opts = _regex_samples(what) if kind == "R" else ([_PRED_TEXT[str(what)]] if str(what) in _PRED_TEXT else [])
        if not opts:
            return False
        parts = [p + [o] for p in parts for o in opts][:24]
    hit = [False]
    orig = qa.PartialParse.apply_rule

    def spy(self, ts, rule, rule_name, match):
        out = orig(self, ts, rule, rule_name, match)
        if rule_name == name and out is not None:
            hit[0] = True
        return out
    qa.PartialParse.apply_rule = spy
    try:
        for p in parts:
            try:
                list(qa.CTP.ctparse_gen(" ".join(p), datetime(2018, 3, 7, 12, 43), timeout=0, max_stack_depth=0, scorer=qa.DummyScorer(), latent_time=False))
            except Exception:  # noqa: BLE001
                pass
            if hit[0]:
                return True
    finally:
        qa.PartialParse.apply_rule = orig
    return False


def fire_rows(case):
    rec = qa.Recorder()
    with qa.recording(rec):
        list(qa.CTP.ctparse_gen(case["text"], datetime(*case["ts"]), timeout=0, max_stack_depth=case.get("depth", 10), scorer=qa.DummyScorer(), latent_time=False))
    return [r for r in rec.rows.values() if qa.row_in_model(r)]


def chain_rows(case):
    """Walk one chain of early/late/very modifiers through the registered ruleEarlyLatePOD / rulePOD / ruleLatentPOD of the
    tree (real tokens from the lexicon's modifier and part-of-day words) - every step is a row for RulesTrace."""
    from . import common
    ts = datetime(2018, 3, 7, 12, 43)
    rows = []
    ptok = common.token("rulePOD", case["pod_word"])
    rows.append(common.call_rule("rulePOD", ts, [ptok]))
    cur = qa.RULES["rulePOD"][0](ts, ptok)
    for w in reversed(case["mods"]):
        if cur is None:
            break
        mtok = common.token("ruleEarlyLatePOD", w)
        rows.append(common.call_rule("ruleEarlyLatePOD", ts, [mtok, cur]))
        try:
            cur = qa.RULES["ruleEarlyLatePOD"][0](ts, mtok, cur)
        except Exception:  # noqa: BLE001
            cur = None
        if cur is not None:
            rows.append(common.call_rule("ruleLatentPOD", ts, [cur]))
    return rows


STAGES = {"firing-rows": (fire_rows, "RulesTrace"), "modifier-chains": (chain_rows, "RulesTrace")}


REG_PATTERNS = {"v1": r"zqva+", "v2": r"zqvb|zqvc", "e1": r"(zqx)?", "e2": r"(zqy)*"}


def replay_registrations(ctx):
    """TLC enumerates all sequences of 4 registrations over {two valid, two empty-matching patterns}; each is replayed on the
    REAL rule() decorator (registry saved, emptied in place and restored) and the outcome of every step compared."""
    import re as _re
    import ctparse.rule as rm
    from ..obs import base_env
    import tempfile
    import shutil
    from .. import tlc as _tlc
    r = ctx.mc("RuleReg", "MC_RuleReg.cfg", workers=1)
    seqs = []
    for ln in r.prints:
        if ln.startswith('<<"REG"'):
            seqs.append([(m.group(1), m.group(2), int(m.group(3))) for m in _re.finditer(r'<<"(\w+)",\s*"(\w+)",\s*(\d+)>>', ln)])
    if len(seqs) < 100:
        raise core.obsmod.MachineryError("RuleReg exported only %d sequences" % len(seqs))
    bad = 0
    for seq in seqs:
        saved = (dict(rm.rules), dict(rm._regex), dict(rm._regex_str), dict(rm._str_regex), rm._regex_cnt)
        rm.rules.clear(); rm._regex.clear(); rm._regex_str.clear(); rm._str_regex.clear()
        rm._regex_cnt = 500
        got = []
        try:
            for k, (pname, outcome, rid) in enumerate(seq):
                def prod(ts, m):
                    return None
                prod.__name__ = "regRule%d" % k
                try:
                    rm.rule(REG_PATTERNS[pname])(prod)
                    pid = rm._str_regex.get(REG_PATTERNS[pname], -1)
                    got.append((pname, "ok", pid))
                except ValueError:
                    got.append((pname, "rejected", 0))
            state_ok = (len(set(rm._str_regex.values())) == len(rm._str_regex) and set(rm._regex_str) == set(rm._str_regex.values())
                        and set(rm._regex) == set(rm._regex_str) and all(not rx.match("") for rx in rm._regex.values())
                        and all(rm._str_regex[v] == k2 for k2, v in rm._regex_str.items()))
        finally:
            rm.rules.clear(); rm.rules.update(saved[0]); rm._regex.clear(); rm._regex.update(saved[1])
            rm._regex_str.clear(); rm._regex_str.update(saved[2]); rm._str_regex.clear(); rm._str_regex.update(saved[3]); rm._regex_cnt = saved[4]
        want = [(p_, "rejected" if o == "rejected" else "ok", i) for p_, o, i in seq]
        if got != want or not state_ok:
            bad += 1
            ctx.violation({"stage": "registration-sequences", "clause": "registry-differs-from-RuleReg"},
                          "rule() registry after %r: got %r, expected %r, registry consistent=%s" % ([x[0] for x in seq], got, want, state_ok),
                          {"stage": "registration-sequences", "sequence": seq, "got": got})
        ctx.nontrivial.add(("regseq", tuple(x[0] for x in seq)))
    ctx.evaluations += len(seqs)
    ctx.traces += len(seqs)
    ctx.stage_counts["registration-sequences"] = {"sequences": len(seqs), "rejected": bad}


def run(ctx):
    rnd = random.Random(ctx.seed)
    ctx.rule_text = ("one structural observation of the whole registry (every rule definition in the syntax tree, every pattern x probe texts, every "
                     "unigram of the shipped vocabulary) + firing runs over corpus and lexeme soups (every application judged against Rules.tla) + "
                     "all modifier chains up to depth 6/7 at model level; distinct = distinct rule / pattern / vocabulary token / firing text")
    ctx.assumptions += ["'can fire' = the production returned a value at least once on the bundled corpus, the hazard texts or random lexeme sequences",
                        "the frozen RuleTable.tla is the reference for which rule reads which pattern identifier (the shipped model's features)"]
    ctx.mc("Derive", "MC_Derive_pod_%s.cfg" % ("q" if ctx.quick else "t"), timeout=3000, heap="8g", coverage=False)
    common.random_rows_stage(ctx, "C19")
    texts = [(t, ts) for t, ts in corpus_texts()]
    texts += [(t, (2018, 3, 7, 12, 43)) for t in ["3 days 15.11.2018 - 18.11.2018", "15.11.2018 - 16.11.2018 für 1 nacht", "15.11.2018 - 16.11.2018 1 nacht",
                                                   "von 9 bis 17 uhr", "between 9:00 and 17:00", "5th of march", "the 5th"]]
    texts += [(t, (2018, 3, 7, 12, 43)) for t in G.soups(rnd, 150 if ctx.quick else 1500, 1, 4)]
    cases = [{"text": t, "ts": ts} for t, ts in texts]
    # targeted texts, searched exhaustively (the beam of depth 10 prunes these longer reductions)
    cases += [{"text": t, "ts": (2018, 3, 7, 12, 43), "depth": 0} for t in
              ["15.11.2018 - 16.11.2018 für 1 nacht", "15.11.2018 - 16.11.2018 1 nacht", "3 days 15.11.2018 - 18.11.2018"]]
    res = core.pmap(fire_rows, cases)
    fired = set()
    rows = {}
    for case, out, err in res:
        if err:
            ctx.violation({"stage": "firing", "clause": "raised"}, "parsing %r raised: %s" % (case["text"], err.strip().splitlines()[-1]), dict(case, stage="firing"))
            continue
        for r in out:
            if r["res"].get("k") not in ("F", "E"):
                fired.add(r["rule"])
            rows[str(r)] = r
    ctx.evaluations += len(cases)
    v = ctx.judge("RulesTrace", list(rows.values()))
    for r in v.rejects:
        ctx.violation({"stage": "firing-rows", "clause": r["clause"], "rule": r["obs"]["rule"]}, "rule row rejected: %s %s" % (r["obs"]["rule"], r["clause"]),
                      {"stage": "firing-rows", "row": r["obs"], "expected": r["detail"]})
    # every chain of modifiers (depth <= 4; thorough 5) on every part of day, through the real productions
    import itertools
    mods = {"early": "early", "late": "late", "veryearly": "very early", "verylate": "sehr spät"}
    podw = {p: [f for f in G.LEX["pod"][p] if f not in ("early", "late", "früh", "spät", "very early", "very late", "sehr früh", "sehr spät")][0]
            for p in qa.PODS if p in G.LEX["pod"] and [f for f in G.LEX["pod"][p] if f not in ("early", "late", "früh", "spät", "very early", "very late", "sehr früh", "sehr spät")]}
    ccases = []
    for p, w in podw.items():
        for n in range(1, 5 if ctx.quick else 6):
            for ch in itertools.product(mods.values(), repeat=n):
                ccases.append({"pod_word": w, "mods": list(ch)})
    core.run_stage(ctx, "modifier-chains", ccases, chain_rows, "RulesTrace", sig_keys=(), nontrivial=lambda c: (c["pod_word"], tuple(c["mods"])))
    # the decorator's registry under every sequence of registrations (RuleReg.tla exports them, incl. rejected patterns)
    replay_registrations(ctx)
    # rules the frozen model does not know (the rule base was extended): probe texts are synthesised from the rule's own patterns;
    # when that fails 'can fire' stays undecided for that rule (a note, not an alarm)
    model_rules = set(qa.model_rule_table())
    for n in sorted(set(qa.registry_table()) - model_rules - fired):
        if auto_probe(n):
            fired.add(n)
            ctx.note("rule %s is not in the frozen RuleTable.tla (rule base extended); it fires on a synthesised probe" % n)
        else:
            fired.add(n)
            ctx.note("UNDECIDED: rule %s is not in the frozen RuleTable.tla and no probe text could be synthesised for it; 'can fire' not decided" % n)
    ob = export(fired)
    v = ctx.judge("RuleBase", [ob])
    for r in v.rejects:
        ctx.violation({"stage": "registry", "clause": r["clause"]}, "rule base: %s (%s)" % (r["clause"], r["detail"][:300]),
                      {"stage": "registry", "clause": r["clause"], "detail": r["detail"]})
    for n in ob["reg_names"]:
        ctx.nontrivial.add(("rule", n))
    for x in ob["regex"]:
        ctx.nontrivial.add(("pattern", x["id"]))
    for t in ob["vocab"]:
        ctx.nontrivial.add(("vocab", t))
    ctx.sample({"rules": len(ob["reg_names"]), "patterns": len(ob["regex"]), "vocabulary_unigrams": len(ob["vocab"]), "fired": len(fired),
                "first_rule": {"name": ob["reg_names"][0], "pattern": ob["patterns"][0]}})
    ctx.stage_counts.update({"firing-texts": len(cases), "distinct-rows": len(rows), "rules": len(ob["reg_names"]), "patterns": len(ob["regex"]),
                             "vocab-unigrams": len(ob["vocab"])})


def replay(ctx, rp):
    run(ctx)
