"""C12 - a parse is a pure function of its arguments: no history, threads or hash seed."""
import copy
import json
import os
import random
import re
import shutil
import subprocess
import sys
import tempfile
import threading
from datetime import datetime

from .. import core, qa, solo, tlc
from ..obs import MachineryError
from .c15 import corpus_texts

LEVEL = "model_checking"
VERIF = core.VERIF


def fresh(cases, hashseed="0"):
    """Results of the cases in a FRESH interpreter (one process for the given list)."""
    env = dict(os.environ)
    env["PYTHONHASHSEED"] = str(hashseed)
    env["QUICKADD_VERIF"] = "1"
    p = subprocess.run(["/venv/bin/python", "-W", "ignore", "-m", "harness.solo"], input=json.dumps(cases), cwd=VERIF, env=env,
                       stdout=subprocess.PIPE, stderr=subprocess.PIPE, text=True, timeout=600)
    if p.returncode != 0:
        raise MachineryError("fresh process failed: " + p.stderr[-800:])
    return json.loads(p.stdout)


def _fresh_one(case):
    return fresh([case])


def make_pool(rnd, n):
    texts = [t for t, ts in corpus_texts()]
    rnd.shuffle(texts)
    pool = []
    extra = ["9-5", "tomorrow 9-5", "call mom tomorrow 8pm #family", "xyzzy", "", "lunch friday 12-13 #work #food", "8", "at 8 on monday",
             # streams that share lexemes (a value object shared between streams shows only then)
             "um mitternacht", "midnight tomorrow", "am 27.10. gegen mitternacht", "heute", "heute 8 uhr", "noon", "tomorrow noon", "monday", "on monday",
             # the same lexemes in different orders / multiplicities (a memo keyed by a summary of the token sequence would confuse them)
             "7:00 8:00 9:00 -", "8:00 - 9:00 -", "- 9:00 8:00 -", "8:00 9:00 - 7:00"]
    for i, t in enumerate(extra + texts[:n]):
        pool.append({"text": t, "ts": [2018, 3, 7, 12, 43] if i % 3 else [2020, 2, 29, 23, 59], "kind": "gen" if i % 2 else "single",
                     "depth": [10, 1, 10, 0][i % 4] if len(t) < 12 else 10, "latent": i % 2 if i % 5 else 1,
                     "rel": [1.0, 1.0, 0.5][i % 3], "scorer": ["shipped", "dummy", "random"][i % 3], "seed": i})
    # the same text under the shipped model AND under a second naive-Bayes model (state shared between scorers shows only then)
    for j, t in enumerate(["5.6. 8 Uhr", "tomorrow 9-5", "heute 8 uhr", "monday 10:30", "31.12. 23:59"]):
        for sc in ("shipped", "other", "shipped"):
            pool.append({"text": t, "ts": [2018, 3, 7, 12, 43], "kind": "gen" if j % 2 else "single", "depth": 10, "latent": 1, "rel": 1.0,
                         "scorer": sc, "seed": 0})
    for c in pool:
        if c["text"] in ("um mitternacht", "midnight tomorrow", "am 27.10. gegen mitternacht", "heute", "heute 8 uhr", "noon", "tomorrow noon", "monday", "on monday"):
            c["kind"] = "gen"
            c["scorer"] = "shipped"
            c["depth"] = 10
    return pool


class Boom(Exception):
    pass


class CrashingScorer(qa.Scorer):
    def __init__(self, inner):
        self.inner = inner
        self.armed = False

    def score(self, txt, ts, pp):
        if self.armed:
            raise Boom()
        return self.inner.score(txt, ts, pp)

    def score_final(self, txt, ts, pp, prod):
        if self.armed:
            raise Boom()
        return self.inner.score_final(txt, ts, pp, prod)


def schedules(steps, max_abandon, max_crash):
    """All schedules of Sessions.tla for the given step counts, enumerated by TLC."""
    tmp = tempfile.mkdtemp(prefix="qa_ss_")
    try:
        with open(os.path.join(tmp, "SS.tla"), "w") as fd:
            fd.write("---- MODULE SS ----\nEXTENDS Sessions\nSt == <<%s>>\n====\n" % ", ".join(map(str, steps)))
        with open(os.path.join(tmp, "SS.cfg"), "w") as fd:
            fd.write("SPECIFICATION Spec\nCONSTANTS\n  NSess = %d\n  Steps <- St\n  MaxAbandon = %d\n  MaxCrash = %d\n"
                     "INVARIANT PrefixOfSolo\nINVARIANT GlobalsUntouched\nINVARIANT Export\nCHECK_DEADLOCK FALSE\n"
                     % (len(steps), max_abandon, max_crash))
        r = tlc.run_tlc("SS", cfg="SS.cfg", workers=1, timeout=600, cwd=tmp, libs=[tlc.SPECS], heap="2g")
        if not r.ok:
            raise MachineryError("Sessions model failed: %s %s" % (r.summary(), r.errors[:2]))
        out = []
        for ln in r.prints:
            if ln.startswith('<<"SCHED"'):
                out.append([(m.group(1), int(m.group(2))) for m in re.finditer(r'<<"(step|abandon|crash)",\s*(\d+)>>', ln)])
        if not out:
            raise MachineryError("no schedule exported by TLC")
        return out, r
    finally:
        shutil.rmtree(tmp, ignore_errors=True)


def safe_run(case):
    """solo.run_case on the in-process library; a call that raises is an observation ('raised:<type>'), not a harness failure."""
    try:
        return solo.run_case(qa, case)
    except Exception as ex:  # noqa: BLE001
        return ["raised:" + type(ex).__name__]


def replay_schedule(cases, sched):
    """Step real generators as the schedule says; returns per stream (digests seen, exact?)."""
    gens, scorers, got, state = [], [], [], []
    for c in cases:
        sc = CrashingScorer(solo.scorer_for(qa, c))
        ts = datetime(*c["ts"])
        g = qa.CTP.ctparse_gen(c["text"], ts, timeout=0, max_stack_depth=c.get("depth", 10), relative_match_len=c.get("rel", 1.0),
                               latent_time=bool(c.get("latent", 1)), scorer=sc)
        gens.append(g)
        scorers.append(sc)
        got.append([])
        state.append("open")
    for act, i in sched:
        k = i - 1
        if act == "step":
            try:
                got[k].append(solo.cand_digest(qa, next(gens[k])))
            except StopIteration:
                state[k] = "done"
            except Exception as ex:  # noqa: BLE001
                # the real stream raised while another stream was open: that IS an observation (it differs from the solo run)
                got[k].append("raised:" + type(ex).__name__)
                state[k] = "done"
        elif act == "abandon":
            gens[k].close()
            state[k] = "abandoned"
        else:
            scorers[k].armed = True
            try:
                next(gens[k])
            except (Boom, StopIteration):
                pass
            state[k] = "crashed"
    return got, [1 if s == "done" else 0 for s in state]


def args_digest(cases):
    return solo.digest(cases)


def _stable(case):
    from .. import engine
    o = engine.observe_text(case)
    return o if qa.row_in_model({"x": [o["init"], o["cands"]]}) else []


def _rows_of(case):
    from .. import engine
    return engine.observe_text(case)["_rows"]


STAGES = {}


def run(ctx):
    rnd = random.Random(ctx.seed)
    ctx.rule_text = ("schedules: every interleaving TLC enumerates for 2-3 real candidate streams (with abandonment / scorer crash), replayed on "
                     "real generators; histories: random call sequences over a pool; threads: 8 threads, 1 microsecond switch interval; hash "
                     "seeds: fresh interpreters under several PYTHONHASHSEED; each compared with a fresh single-call process; distinct = "
                     "distinct schedule / history / thread run / seed")
    ctx.assumptions += ["results are compared as digests of (resolution, span, score, production, subject, labels)",
                        "CPython preemption cannot be scheduled: the thread part is exploration, the generator part is exhaustive"]
    for c in ("2a", "2b", "3"):
        ctx.mc("MC_Sessions", "MC_Sessions_%s.cfg" % c)
    pool = make_pool(rnd, 16 if ctx.quick else 60)
    # fresh-process reference for every pool entry (one interpreter per case)
    res = core.pmap(_fresh_one, pool, procs=12)
    ref = []
    snaps = set()
    for case, out, err in res:
        if err:
            raise MachineryError(err)
        ref.append(out["results"][0])
        snaps.add(out["snap"])
    snap_ref = sorted(snaps)[0]
    obs = []
    if len(snaps) != 1:
        obs.append({"kind": "fresh-snapshots", "got": [], "solo": [], "exact": [], "snap0": sorted(snaps)[0], "snap1": sorted(snaps)[-1],
                    "args0": "x", "args1": "x", "_what": "module state differs between fresh processes"})
    # ---- calls that fail by TIMEOUT at every point of the early phases, then the same call again -------------
    # (a memo filled by a call that was cut short must not leak into later calls)
    nto = 0
    # this stage runs before all others: nothing in this process has parsed these texts yet
    tpool = [c for c in pool if c["text"] and len(c["text"]) < 40][:6 if ctx.quick else 20]
    for c in tpool:
        s0 = solo.snapshot(qa)
        # (no clean call first: the cut-short call must be the FIRST one on this text in the process)
        got, sl, ex = [], [], []
        pts = list(range(1, 61))
        for T in pts:
            vc = qa.VirtualClock()
            with qa.virtual_clock(vc):
                try:
                    qa.CTP.ctparse(c["text"], datetime(*c["ts"]), timeout=T, scorer=qa.DummyScorer(), max_stack_depth=c.get("depth", 10))
                except Exception:  # noqa: BLE001
                    pass
            # first only cut-short calls (a clean call in between would repair a half-filled memo), one clean call at
            # the end; on every second text clean calls are interleaved as well
            if T == pts[-1] or (tpool.index(c) % 2 == 1 and (T % 5 == 0 or T <= 12)):
                got.append(safe_run(c))
                sl.append(ref[pool.index(c)])
                ex.append(1)
        obs.append({"kind": "timeout-history", "got": got, "solo": sl, "exact": ex, "snap0": s0, "snap1": solo.snapshot(qa),
                    "args0": "a", "args1": "a", "_what": {"text": c["text"], "expiry_points": len(pts)}})
        nto += 1
    # ---- schedules of suspended streams (exhaustive, from TLC) ---------------------------------------
    gen_idx = [i for i, c in enumerate(pool) if c["kind"] == "gen" and 1 <= len(ref[i]) <= 4]
    combos = []
    for a in gen_idx[:6]:
        for b in gen_idx[:6]:
            if a < b and len(ref[a]) + len(ref[b]) <= (5 if ctx.quick else 7):
                combos.append((a, b))
    combos = combos[:2 if ctx.quick else 6]
    triples = [tuple(gen_idx[:3])] if len(gen_idx) >= 3 and sum(len(ref[i]) for i in gen_idx[:3]) <= 6 and not ctx.quick else []
    nsched = 0
    for combo in combos + triples:
        cases = [pool[i] for i in combo]
        steps = [len(ref[i]) + 1 for i in combo]
        scheds, r = schedules(steps, 1, 1 if len(combo) == 2 else 0)
        ctx.states += r.distinct
        ctx.transitions += r.generated
        for sched in scheds:
            a0 = args_digest(cases)
            s0 = solo.snapshot(qa)
            got, exact = replay_schedule(copy.deepcopy(cases), sched)
            obs.append({"kind": "schedule", "got": got, "solo": [ref[i] for i in combo], "exact": exact, "snap0": s0,
                        "snap1": solo.snapshot(qa), "args0": a0, "args1": args_digest(cases),
                        "_what": {"streams": [pool[i]["text"] for i in combo], "schedule": sched}})
            nsched += 1
    # ---- call histories -------------------------------------------------------------------------------
    nh = 0
    for h in range(6 if ctx.quick else 40):
        s0 = solo.snapshot(qa)
        got, sl, ex = [], [], []
        seq = [rnd.randrange(len(pool)) for _ in range(rnd.randrange(5, 25))]
        for i in seq:
            c = pool[i]
            roll = rnd.random()
            if roll < 0.15:
                # an abandoned stream before the call
                g = qa.CTP.ctparse_gen(c["text"], datetime(*c["ts"]), timeout=0)
                try:
                    next(g)
                except StopIteration:
                    pass
                del g
            elif roll < 0.3:
                # a call that fails (its scorer raises)
                sc = CrashingScorer(qa.fresh_scorer("dummy"))
                sc.armed = True
                try:
                    qa.CTP.ctparse(c["text"], datetime(*c["ts"]), timeout=0, scorer=sc)
                except Boom:
                    pass
            a0 = args_digest(c)
            got.append(safe_run(c))
            if a0 != args_digest(c):
                got[-1] = ["args-changed"]
            sl.append(ref[i])
            ex.append(1)
        obs.append({"kind": "history", "got": got, "solo": sl, "exact": ex, "snap0": s0, "snap1": solo.snapshot(qa),
                    "args0": "a", "args1": "a", "_what": {"history": [pool[i]["text"] for i in seq]}})
        nh += 1
    # ---- model-switch histories: every text of the pool that exists under two models, called shipped / other / shipped / other -------
    by_text = {}
    for i, c in enumerate(pool):
        if c["scorer"] in ("shipped", "other"):
            by_text.setdefault((c["text"], c["kind"]), {}).setdefault(c["scorer"], i)
    for (t, kind), d in sorted(by_text.items()):
        if len(d) == 2:
            s0 = solo.snapshot(qa)
            seq = [d["shipped"], d["other"], d["shipped"], d["other"]]
            got = [safe_run(pool[i]) for i in seq]
            obs.append({"kind": "history", "got": got, "solo": [ref[i] for i in seq], "exact": [1] * 4, "snap0": s0, "snap1": solo.snapshot(qa),
                        "args0": "a", "args1": "a", "_what": {"history": ["%s under %s" % (t, pool[i]["scorer"]) for i in seq]}})
            nh += 1
    # ---- threads ----------------------------------------------------------------------------------------
    old = sys.getswitchinterval()
    sys.setswitchinterval(1e-6)
    nt = 0
    try:
        for rep in range(2 if ctx.quick else 8):
            s0 = solo.snapshot(qa)
            results = {}
            order = [[rnd.randrange(len(pool)) for _ in range(6 if ctx.quick else 12)] for _ in range(8)]

            def work(tid):
                results[tid] = [safe_run(pool[i]) for i in order[tid]]
            ths = [threading.Thread(target=work, args=(t,)) for t in range(8)]
            for t in ths:
                t.start()
            for t in ths:
                t.join()
            for t in range(8):
                obs.append({"kind": "thread", "got": results[t], "solo": [ref[i] for i in order[t]], "exact": [1] * len(order[t]),
                            "snap0": s0, "snap1": solo.snapshot(qa), "args0": "a", "args1": "a",
                            "_what": {"thread": t, "texts": [pool[i]["text"] for i in order[t]]}})
                nt += 1
    finally:
        sys.setswitchinterval(old)
    # ---- hash seeds -------------------------------------------------------------------------------------------
    ns = 0
    for seed in (["1", "4242"] if ctx.quick else ["1", "2", "4242", "31337", "random"]):
        out = fresh(pool, hashseed=seed)
        obs.append({"kind": "hashseed", "got": out["results"], "solo": ref, "exact": [1] * len(pool), "snap0": snap_ref,
                    "snap1": out["snap"], "args0": "a", "args1": "a", "_what": {"PYTHONHASHSEED": seed}})
        ns += 1
    # ---- per-application purity: every rule application the engine makes on the pool leaves its
    # arguments unchanged (RulesTrace clause "pure"), candidates unchanged after their yield (DeriveText)
    from .. import engine
    pcases = [{"text": c["text"], "ts": tuple(c["ts"]), "depth": 10, "scorer": "dummy", "label": "purity", "form": "rows"} for c in pool]
    core.run_stage(ctx, "application-purity", pcases, _rows_of, "RulesTrace", sig_keys=("text",), nontrivial=lambda c: c["text"])
    core.run_stage(ctx, "candidate-stability", pcases, _stable, "DeriveText", sig_keys=("text",), nontrivial=lambda c: c["text"])
    clean = [{k: v for k, v in o.items() if not k.startswith("_")} for o in obs]
    v = ctx.judge("SessionsTrace", clean)
    for r in v.rejects:
        o = obs[r["id"] - 1]
        ctx.violation({"stage": o["kind"], "clause": r["clause"]}, "%s: %s" % (o["kind"], r["clause"]),
                      {"stage": o["kind"], "what": o["_what"], "detail": r["detail"]})
    ctx.evaluations += len(obs)
    for i, o in enumerate(obs):
        ctx.nontrivial.add((o["kind"], json.dumps(o["_what"], sort_keys=True, default=str) if "_what" in o else i))
    ctx.stage_counts.update({"schedules": nsched, "histories": nh, "thread_runs": nt, "hash_seeds": ns, "pool": len(pool),
                             "timeout_histories": nto})
    ctx.sample({"kind": "schedule", "example": next((o["_what"] for o in obs if o["kind"] == "schedule"), None)})
    ctx.sample({"kind": "history", "example": next((o["_what"] for o in obs if o["kind"] == "history"), None)})
    ctx.exhaustive = False


def replay(ctx, rp):
    run(ctx)
