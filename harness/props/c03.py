"""C03 - relative-day expressions hit the exact calendar day for every reference time."""
import random
from datetime import datetime, timedelta, timezone

from .. import core, e2e, grammar as G, qa
from . import common

LEVEL = "model_checking"


def _all_forms():
    forms = G.rel_forms()
    for w in range(7):
        forms += G.dow_forms(w)
    return forms


def _one_form_each():
    """One representative surface form per abstract expression."""
    seen = {}
    for lab, text, D in _all_forms():
        key = (lab.split(":")[0], D["dk"], D["n1"])
        seen.setdefault(key, (lab, text, D))
    return list(seen.values())


def rows_for_day(case):
    """Direct calls of the relative-day productions of the tree on one reference time."""
    ts = e2e.ts_of(case["ts"])
    tok = case_tokens()
    rows = []
    for rn, t in tok["nullary"]:
        rows.append(common.call_rule(rn, ts, [t]))
    for w in range(7):
        dow = tok["dow"][w]
        dv = qa.RULES["ruleNamedDOW"][0](ts, dow)
        rows.append(common.call_rule("ruleNamedDOW", ts, [dow]))
        rows.append(common.call_rule("ruleLatentDOW", ts, [dv]))
        rows.append(common.call_rule("ruleAtDOW", ts, [tok["this"], dv]))
        rows.append(common.call_rule("ruleNextDOW", ts, [tok["next"], dv]))
        rows.append(common.call_rule("ruleDOWNextWeek", ts, [dv, tok["nextweek"]]))
    return rows


_TOK = None


def case_tokens():
    global _TOK
    if _TOK is None:
        t = {"nullary": [("ruleToday", common.token("ruleToday", "today")),
                         ("ruleNow", common.token("ruleNow", "now")),
                         ("ruleTomorrow", common.token("ruleTomorrow", "tomorrow")),
                         ("ruleAfterTomorrow", common.token("ruleAfterTomorrow", G.LEX["after_tomorrow"][0])),
                         ("ruleYesterday", common.token("ruleYesterday", "yesterday")),
                         ("ruleBeforeYesterday", common.token("ruleBeforeYesterday", "vorgestern")),
                         ("ruleEOM", common.token("ruleEOM", "eom")),
                         ("ruleEOY", common.token("ruleEOY", "eoy"))],
             "dow": [common.token("ruleNamedDOW", G.LEX["dow"][str(w)][0]) for w in range(7)],
             "this": common.token("ruleAtDOW", "this"),
             "next": common.token("ruleNextDOW", "next"),
             "nextweek": common.token("ruleDOWNextWeek", "next week")}
        _TOK = t
    return _TOK


class _FakeDatetime(datetime):
    """datetime with a fixed 'current instant': _now is the LOCAL wall-clock time, _offset the local zone's offset from UTC.
    now() without argument gives local time (what 'the current time' means for a naive reference time); now(tz) / utcnow()
    give the same instant in another zone - so code that takes the current time in UTC is told apart."""
    _now = None
    _offset = timedelta(hours=14)

    @classmethod
    def now(cls, tz=None):
        if tz is None:
            return cls._now
        utc = (cls._now - cls._offset).replace(tzinfo=timezone.utc)
        return utc.astimezone(tz)

    @classmethod
    def utcnow(cls):
        return cls._now - cls._offset

    @classmethod
    def today(cls):
        return cls._now


def obs_now_default(case):
    """ts omitted: the reference time is the current time (datetime.now patched to a fixed instant)."""
    ts = e2e.ts_of(case["ts"])
    _FakeDatetime._now = ts
    _FakeDatetime._offset = timedelta(hours=case.get("offset", 14))
    orig = qa.CTP.datetime
    qa.CTP.datetime = _FakeDatetime
    try:
        r = qa.CTP.ctparse(case["text"], timeout=0)
    finally:
        qa.CTP.datetime = orig
    val = {"k": "F"} if r is None or r.resolution is None else qa.val_json(r.resolution)
    return {"fam": "day", "D": case["D"], "D2": e2e.NODAY, "ts": qa.ts_json(ts), "val": val}


STAGES = {
    "calendar-binding": (common.cal_obs, "CalendarTrace"),
    "rule-rows": (rows_for_day, "RulesTrace"),
    "e2e-forms": (e2e.obs_day, "DenoteTrace"),
    "e2e-dates": (e2e.obs_day, "DenoteTrace"),
    "e2e-default-now": (obs_now_default, "DenoteTrace"),
    "e2e-subminute": (e2e.obs_day, "DenoteTrace"),
}


def run(ctx):
    rnd = random.Random(ctx.seed)
    ctx.rule_text = ("cases = (surface form of a relative-day expression from the frozen lexicon) x reference time; "
                     "distinct = distinct (stage, form/expression, reference time); every case exercises a calendar roll-over "
                     "candidate date or a distinct surface form")
    ctx.assumptions += ["regular-expression matching is outside TLA+: surface forms come from the frozen lexicon",
                        "minute resolution of the reference time (the rules never read seconds)"]
    # R1
    ctx.mc("MC_Calendar", "MC_Calendar.cfg" if ctx.quick else "MC_Calendar_400.cfg", timeout=1800)
    ctx.mc("MC_Denote", "MC_Denote_C03_q.cfg" if ctx.quick else "MC_Denote_C03_t.cfg", timeout=3000)
    common.random_rows_stage(ctx, "C03")
    # binding of the calendar and of the productions, every day of the 28-year cycle
    common.calendar_binding(ctx)
    times = [(12, 43)] if ctx.quick else [(0, 0), (12, 43), (23, 59)]
    step = 3 if ctx.quick else 1
    days = list(e2e.all_days())
    off = rnd.randrange(step)
    cases = [{"ts": d + t} for i, d in enumerate(days) if i % step == off for t in times]
    cases += [{"ts": d + (23, 59)} for d in e2e.boundary_dates()]
    core.run_stage(ctx, "rule-rows", cases, rows_for_day, "RulesTrace", sig_keys=(), nontrivial=lambda c: c["ts"])
    # end to end: every surface form on a few dates, one form per expression on many dates
    forms = _all_forms()
    tss = [(2018, 3, 7, 12, 43), (2020, 2, 29, 23, 59), (2019, 12, 31, 0, 0)]
    cases = [{"text": t, "D": D, "ts": ts, "label": lab.split(":")[0], "form": t} for lab, t, D in forms for ts in tss]
    core.run_stage(ctx, "e2e-forms", cases, e2e.obs_day, "DenoteTrace")
    reps = _one_form_each()
    if ctx.quick:
        dates = [d + hm for d in e2e.boundary_dates() for hm in ((0, 0), (23, 59))]
    else:
        dates = [d + hm for d in days for hm in ((0, 0), (12, 43), (23, 59))]
    cases = [{"text": t, "D": D, "ts": ts, "label": lab.split(":")[0], "form": t} for lab, t, D in reps for ts in dates]
    core.run_stage(ctx, "e2e-dates", cases, e2e.obs_day, "DenoteTrace")
    # sub-minute parts of the reference time must be ignored (truncated), also in the last seconds of a day / month / year
    sub = [(2024, 2, 28, 23, 59, 40, 0), (2019, 12, 31, 23, 59, 59, 999999), (2018, 3, 7, 12, 43, 30, 0), (2021, 4, 30, 23, 59, 31, 5)]
    cases = [{"text": t, "D": D, "ts": ts, "label": lab.split(":")[0], "form": t} for lab, t, D in reps for ts in sub]
    core.run_stage(ctx, "e2e-subminute", cases, e2e.obs_day, "DenoteTrace")
    cases = [{"text": t, "D": D, "ts": ts + (30, 123456), "label": lab.split(":")[0], "form": t}
             for lab, t, D in reps for ts in tss]
    cases += [{"text": t, "D": D, "ts": ts, "label": lab.split(":")[0], "form": t} for lab, t, D in reps for ts in sub[:2]]
    cases = [dict(c, offset=(14, -12, 0, 5)[i % 4]) for i, c in enumerate(cases)]       # the local zone is not UTC
    core.run_stage(ctx, "e2e-default-now", cases, obs_now_default, "DenoteTrace")
    ctx.exhaustive = False


def replay(ctx, rp):
    core.generic_replay(ctx, rp, STAGES)
