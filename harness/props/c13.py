"""C13 - timeout honoured: bounded work between deadline checks, clean partial results."""
import json
import math
import os
import random
import shutil
import tempfile
from datetime import datetime

from .. import core, engine, qa, tlc
from ..obs import MachineryError, base_env

LEVEL = "model_checking"
TS = (2018, 3, 7, 12, 43)


class CountingScorer(qa.Scorer):
    def __init__(self, inner, raw):
        self.inner = inner
        self.raw = raw

    def score(self, txt, ts, pp):
        self.raw.append(("W",))
        return self.inner.score(txt, ts, pp)

    def score_final(self, txt, ts, pp, prod):
        self.raw.append(("W",))
        return self.inner.score_final(txt, ts, pp, prod)


def _cand(c):
    return {"val": qa.val_json(c.resolution), "prod": [str(p) for p in c.production], "_score": c.score}


def run_timed(text, deadline, scorer_kind="dummy", depth=10, entry="gen", tick=1.0):
    """One run of the real parser under a virtual clock with timeout=deadline (0 = none).
    Returns (events, candidates, clock reads, raised, maxlen)."""
    import ctparse.timers as tm
    raw = []
    ts = datetime(*TS)
    clock = qa.VirtualClock()
    clock.tick = tick
    if tick != 1.0 and deadline:
        deadline = (deadline + 0.5) * tick      # same expiry point as <deadline> unit ticks, in another unit of time
    orig_timeout = qa.CTP.timeout_
    orig_apply = qa.PartialParse.apply_rule
    orig_filter = qa.PartialParse._filter_rules
    maxlen = [1]

    def my_timeout(t):
        f = orig_timeout(t)
        r0 = clock.now            # the deadline function has just read the clock: its start time, in ticks

        def g():
            try:
                f()
            except tm.CTParseTimeoutError:
                raw.append(("Chk", 1, clock.now - r0))
                raise
            raw.append(("Chk", 0, clock.now - r0))
        return g

    def my_apply(self, *a, **k):
        raw.append(("W",))
        maxlen[0] = max(maxlen[0], len(self.prod))
        return orig_apply(self, *a, **k)

    def my_filter(self, rules):
        raw.append(("WI",))
        maxlen[0] = max(maxlen[0], len(self.prod))
        return orig_filter(self, rules)

    qa.CTP.timeout_ = my_timeout
    qa.PartialParse.apply_rule = my_apply
    qa.PartialParse._filter_rules = my_filter
    cands = []
    raised = 0
    single = None
    try:
        with qa.virtual_clock(clock):
            sc = CountingScorer(qa.fresh_scorer(scorer_kind, 7), raw)
            try:
                if entry == "gen":
                    for c in qa.CTP.ctparse_gen(text, ts, timeout=deadline, max_stack_depth=depth, scorer=sc, latent_time=False):
                        raw.append(("Y",))
                        cands.append(_cand(c))
                else:
                    single = qa.CTP.ctparse(text, ts, timeout=deadline, max_stack_depth=depth, scorer=sc, latent_time=False)
            except Exception:  # noqa: BLE001
                raised = 1
    finally:
        qa.CTP.timeout_ = orig_timeout
        qa.PartialParse.apply_rule = orig_apply
        qa.PartialParse._filter_rules = orig_filter
    events = []
    for k, r in enumerate(raw):
        if r[0] in ("W", "WI"):
            kind = "WI" if (r[0] == "WI" or (k > 0 and raw[k - 1][0] == "WI")) else "W"
            if events and events[-1]["ev"] == kind:
                events[-1]["n"] += 1
            else:
                events.append({"ev": kind, "n": 1})
        elif r[0] == "Chk":
            events.append({"ev": "Chk", "expired": r[1], "el": r[2]})
        else:
            events.append({"ev": "Y"})
    events.append({"ev": "End", "raised": raised})
    return events, cands, clock.reads, raised, maxlen[0], single


def obs_deadline(case):
    text, T = case["text"], case["deadline"]
    tick = case.get("tick", 1.0)
    ev, out, reads, raised, L, _ = run_timed(text, T, case.get("scorer", "dummy"), case.get("depth", 10), tick=tick)
    _, full, _, _, L2, _ = run_timed(text, 0, case.get("scorer", "dummy"), case.get("depth", 10))
    _, _, _, raised2, _, single = run_timed(text, T, case.get("scorer", "dummy"), case.get("depth", 10), entry="single", tick=tick)
    sj = {"val": {"k": "F"}, "prod": [], "_score": None} if (single is None or single.resolution is None) else _cand(single)
    allc = out + full + [sj]
    scores = sorted({c["_score"] for c in allc if c["_score"] is not None})
    rk = {s: i for i, s in enumerate(scores)}
    for c in allc:
        c["rank"] = -1 if c["_score"] is None else rk[c["_score"]]
    strip = lambda c: {k: v for k, v in c.items() if not k.startswith("_")}  # noqa: E731
    R = len(qa.RULES)
    L = max(L, L2)
    ev[-1]["raised"] = 1 if (raised or raised2) else 0
    return {"ev": ev, "out": [strip(c) for c in out], "full": [strip(c) for c in full], "single": strip(sj), "deadline": T,
            "bound": 2 * R * L + L + 2, "_reads": reads}


def judge_deadline(ctx, name, cases):
    res = core.pmap(obs_deadline, cases)
    obs = []
    owner = []
    for case, o, err in res:
        if err:
            raise MachineryError("deadline observation failed:\n" + err)
        obs.append({k: v for k, v in o.items() if not k.startswith("_")})
        owner.append(case)
    # TLC judges the traces in batches of 250 (a thorough run has thousands of traces of hundreds of events each: one
    # JSON file for all of them does not fit TLC's heap), several batches side by side
    from concurrent.futures import ThreadPoolExecutor
    tmp = tempfile.mkdtemp(prefix="qa_dl_")
    acc, rej = set(), {}
    try:
        jobs = []
        for c0 in range(0, len(obs), 250):
            path = os.path.join(tmp, "t_%d.ndjson" % c0)
            with open(path, "w") as fd:
                for o in obs[c0:c0 + 250]:
                    fd.write(json.dumps(o) + "\n")
            jobs.append((c0, path))

        def one(job):
            return job[0], tlc.run_tlc("DeadlineTrace", env={"QA_OBS_FILE": job[1]}, workers=2, timeout=3000, heap="4g")
        with ThreadPoolExecutor(max_workers=6) as ex:
            results = list(ex.map(one, jobs))
    finally:
        shutil.rmtree(tmp, ignore_errors=True)
    for c0, r in results:
        if r.timed_out or not r.ok:
            raise MachineryError("DeadlineTrace failed: %s\n%s" % (r.summary(), "\n".join(r.errors[:3]) or r.stdout[-1500:]))
        for ln in r.prints:
            t = tlc.parse_tuple(ln)
            if t and t[0] == "ACCEPT":
                acc.add(c0 + t[1])
            if t and t[0] == "REJECT":
                rej.setdefault(c0 + t[1], []).append(t[2])
        ctx.states += r.distinct
        ctx.transitions += r.generated
    ctx.traces += len(obs)
    ctx.evaluations += len(obs)
    nrej = 0
    for i, case in enumerate(owner, 1):
        ctx.nontrivial.add((name, case["text"], case["deadline"], case.get("scorer"), case.get("depth"), case.get("tick")))
        if i in rej or i not in acc:
            nrej += 1
            clause = (rej.get(i) or ["not-consumed"])[0]
            ctx.violation({"stage": name, "clause": clause},
                          "%s: %r with the deadline at clock read %s: %s" % (name, case["text"], case["deadline"], clause),
                          dict(case, stage=name))
    # vacuity guard: the enumerated expiry points must reach INTO the production loop - for every input that streams at least two
    # candidates some cut-short run has to stop with a non-empty proper prefix (an enumeration that only covers regex matching
    # and sequence enumeration would pass every clause trivially; that happened once, see DESIGN.md section 8)
    per = {}
    for case, o in zip(owner, obs):
        key = (case["text"], case.get("scorer"), case.get("depth"), case.get("tick"))
        st = per.setdefault(key, {"full": len(o["full"]), "proper": 0, "expired": 0, "sampled": bool(case.get("sampled"))})
        if case["deadline"] and any(e["ev"] == "Chk" and e["expired"] for e in o["ev"]):
            st["expired"] += 1
            if 0 < len(o["out"]) < len(o["full"]):
                st["proper"] += 1
    # (only where every expiry point was enumerated: a sample of the points of a long run may miss the few mid-stream ones)
    hollow = [k for k, st in per.items() if st["full"] >= 2 and st["expired"] and not st["proper"] and not st["sampled"]]
    if hollow and not nrej and not ctx.violations:
        raise MachineryError("expiry points never cut a stream in the middle for %r: the enumeration does not reach the production loop" % (hollow[:3],))
    ctx.stage_counts[name] = {"cases": len(cases), "rejected": nrej,
                              "inputs_with_mid_stream_expiry": sum(1 for st in per.values() if st["proper"]),
                              "mid_stream_expiry_points": sum(st["proper"] for st in per.values())}
    if obs:
        ctx.sample({"stage": name, "case": cases[0], "events_head": obs[0]["ev"][:10], "bound": obs[0]["bound"]})


def expiry_cases(texts, quick, rnd, scorers=("dummy",), depths=(10,)):
    cases = []
    for text in texts:
        for sc in scorers:
            for d in depths:
                # count the clock reads of a run that CAN expire (a run with timeout=0 skips the reads of the deadline checks)
                _, _, reads, _, _, _ = run_timed(text, 10 ** 9, sc, d)
                pts = list(range(1, reads + 2))
                sampled = False
                if quick and len(pts) > 60:
                    pts = sorted(set(pts[:25] + pts[-10:] + rnd.sample(pts, 25)))
                    sampled = True
                for T in [0] + pts:
                    cases.append({"text": text, "deadline": T, "scorer": sc, "depth": d, "sampled": sampled})
    return cases


def replay_stage(case):
    return obs_deadline(case)


def run(ctx):
    rnd = random.Random(ctx.seed)
    ctx.rule_text = ("cases = input x expiry point (the deadline placed between any two consecutive clock reads of the run, virtual clock) "
                     "x scorer x depth limit; distinct = distinct (input, expiry point, scorer, depth)")
    ctx.assumptions += ["time is the virtual clock (one tick per read of ctparse.timers.perf_counter): expiry points are enumerated, not sampled from a real clock",
                        "work = rule pre-filters + scorings + rule applications, observed through _filter_rules / scorer= / apply_rule"]
    for c in ["I1_d0x", "I1_d1", "I2_d2", "I4_d0x"] + ([] if ctx.quick else ["I2_d0x"]):
        ctx.mc("MC_SearchImpl", "MC_SearchImpl_%s.cfg" % c, timeout=1800, heap="8g")
    # the real engine on synthetic grammars, every expiry point, validated against SearchImpl
    groups = engine.engine_groups(ctx, depths=(0, 2), seeds=3 if ctx.quick else 8, scores=(0, 1), deadlines=True)
    engine.judge_engine_groups(ctx, groups, prop_stage="engine-deadline-traces")
    # the real grammar
    texts = ["8", "8 8", "8 8 8", "tomorrow 8pm", "monday 9-5", "5.3.2020 for 3 days", "xyzzy", "", "#tag call mom",
             # values that only latent (one-argument) rules still expand: the un-anchored value must never be streamed
             "monday", "morning", "may 5th", "on the 5th", "5.3.", "friday evening"]
    if not ctx.quick:
        texts += ["8 8 8 8", "at 8 on monday next week", "early morning tomorrow"]
    cases = expiry_cases(texts, ctx.quick, rnd, scorers=("dummy", "shipped") if not ctx.quick else ("dummy",),
                         depths=(10,) if ctx.quick else (10, 0))
    if ctx.quick:
        cases += expiry_cases(["8 8 8 8"], True, rnd)
    # the unit of time must not matter: the same expiry points with a tick of a picosecond, 2**-40 s, an hour
    # (a positive timeout is a limit however small; a huge one must not overflow)
    for tick in (1e-12, 2.0 ** -40, 3600.0, 1e300):
        for c in expiry_cases(["8", "tomorrow 8pm", "monday"], True, rnd):
            if c["deadline"]:
                cases.append(dict(c, tick=tick))
    judge_deadline(ctx, "real-deadline-traces", cases)


def replay(ctx, rp):
    cs = [c for c in rp.get("cases", []) if c.get("stage") == "real-deadline-traces"]
    if cs:
        judge_deadline(ctx, "real-deadline-traces", [{k: v for k, v in c.items() if k != "stage"} for c in cs])
    for c in rp.get("cases", []):
        if c.get("kind") == "model":
            ctx.mc(c["module"], c.get("cfg"))
