"""C09 - words around a time expression neither change its meaning nor blur its span."""
import random
from datetime import datetime

from .. import core, e2e, engine, grammar as G, qa
from .c15 import corpus_texts

LEVEL = "model_checking"


def inert(w):
    """Inertness is decided by running the library's own patterns over the word (in context)."""
    for ctx_ in (w, " " + w + " ", "8 " + w, w + " 8", "monday " + w, w + " pm"):
        i = ctx_.index(w)
        for m in qa.CTP._match_regex(ctx_, qa.REGEX):
            if m.mstart < i + len(w) and m.mend > i:
                return False
    return True


def obs_lattice(case):
    import re
    # exactly what _ctparse hands to the lexer: normalised text with the #labels cut out
    txt = re.sub('#[a-zA-Z0-9_-]+', '', qa.CTP._preprocess_string(case["text"])).strip()
    if case.get("raw"):
        txt = case["text"]
    ms = qa.CTP._match_regex(txt, qa.REGEX)
    seqs = qa.CTP._regex_stack(txt, ms)
    uniq = []
    for m in ms:
        d = {"id": int(m.id), "s": int(m.mstart), "e": int(m.mend)}
        if d not in uniq:
            uniq.append(d)
    out = {"ms": uniq, "blanks": [i for i, c in enumerate(txt) if c.isspace()],
           "seqs": [[{"id": int(m.id), "s": int(m.mstart), "e": int(m.mend)} for m in q] for q in seqs],
           "filtered": 0, "admitted": [], "relnum": 1, "relden": 1}
    if case.get("rel") and not case.get("raw") and len(seqs) <= 30 and len(ms) <= 9:
        # which candidate sequences survive the relative_match_len filter: with no depth limit every admitted sequence is
        # popped (as a production made of pattern matches only) - observed through the _match_rule seam
        from datetime import datetime
        num, den = case["rel"]
        popped = []
        orig = qa.CTP._match_rule

        def spy(seq, rule):
            if all(isinstance(x, qa.T.RegexMatch) for x in seq):
                d = [{"id": int(m.id), "s": int(m.mstart), "e": int(m.mend)} for m in seq]
                if d not in popped:
                    popped.append(d)
            return orig(seq, rule)
        qa.CTP._match_rule = spy
        try:
            list(qa.CTP._ctparse(txt, datetime(2018, 3, 7, 12, 43), timeout=0, relative_match_len=num / den, max_stack_depth=0,
                                 scorer=qa.DummyScorer()))
        finally:
            qa.CTP._match_rule = orig
        out.update({"filtered": 1, "admitted": popped, "relnum": num, "relden": den})
    return out


def obs_embed(case):
    ts = datetime(*case["ts"])
    latent = bool(case["latent"])
    # inertness is a property of the word IN THIS TEXT ("zebra quarter to 8": the pattern "(a )?quarter"
    # matches the last letter of zebra): skip the case if any pattern touches a surrounding word
    kw = {"relative_match_len": case["rel"]} if case.get("rel") else {}
    base, rb = e2e.parse_val(case["base"], ts, latent=latent, **kw)
    val, r = e2e.parse_val(case["text"], ts, latent=latent, **kw)
    bs = be = s = e = -1
    if rb is not None and rb.resolution is not None:
        bs, be = int(rb.resolution.mstart), int(rb.resolution.mend)
    if r is not None and r.resolution is not None:
        s, e = int(r.resolution.mstart), int(r.resolution.mend)
    out = [{"val": val, "base": base, "checkspan": 1, "s": s, "e": e, "xs": bs + case["shift"], "xe": be + case["shift"]}]
    if case.get("full"):
        # a grammar expression is resolved from all of its characters
        out.append({"val": base, "base": base, "checkspan": 1, "s": bs, "e": be, "xs": 0, "xe": len(case["base"])})
    return out


def diag_embed(case, reject):
    """Does a pattern match of the embedded text reach from the expression into a surrounding (inert) word?  The property
    defines inertness on the word alone, so that IS a violation; the cause names the patterns (model identifiers)."""
    lo, hi = case["shift"], case["shift"] + len(case["base"])
    ids = sorted({qa.mid(int(m.id)) for m in qa.CTP._match_regex(case["text"], qa.REGEX)
                  if (m.mstart < lo - 1 and m.mend > lo - 1) or (m.mend > hi + 1 and m.mstart < hi + 1)})
    return {"cause": "pattern-reaches-into-neighbouring-word:" + ",".join(map(str, ids))} if ids else {"cause": "other"}


FROZEN_INERT = ("street", "staff", "thanks", "terrace", "pizza", "oma", "every", "knot", "copyright", "pmx",
                "Hütte", "Männer", "Möbel", "Hände", "hübsch", "Mühle", "Tänzer", "näher", "übung", "ärger")
STAGES = {"lattice": (obs_lattice, "LatticeTrace"), "embeddings": (obs_embed, "VariantTrace")}


def grammar_exprs(rnd, quick):
    out = []
    for lab, t, D in G.rel_forms()[::3 if quick else 1]:
        out.append(t)
    for w in range(7):
        out += [t for lab, t, D in G.dow_forms(w)][::40 if quick else 9]
    for d in (1, 15, 31):
        out += [t for lab, t, D in G.dom_forms(d)]
    for (m, d) in ((3, 5), (12, 31)):
        out += [t for lab, t, D in G.doy_forms(d, m)]
    for (y, m, d) in ((2021, 3, 5), (2019, 12, 31)):
        out += [t for lab, t, D in G.date_forms(d, m, y)]
    for (h, mi) in ((9, 0), (15, 30), (0, 0), (23, 45), (12, 15)):
        out += [t for lab, t, C in G.clock_forms(h, mi) if lab != "clock:h in the POD"][::2 if quick else 1]
    out += ["tomorrow 8pm", "5.3.2021 9:00 - 10:30", "monday 9-5", "9:00-17:00", "23:30-3:35", "3 days", "two weeks", "half an hour",
            "5.3.2021 for 3 days", "before 5.3.2021", "after 17:30", "next friday at noon", "tomorrow morning", "31.12. 23:59",
            # expressions that START with an absorbed word (the span must include it, also after latent anchoring)
            "between 9:30 and 11:00", "from 8:00 to 9:00", "von 8:00 bis 9:00", "zwischen 8:00 und 10:00", "at 8pm", "um 8:30", "on monday",
            "am 5.3.2021", "from 8 to 9 pm", "gegen 17 uhr", "about 9:15", "vom 1.3.2021 bis 5.3.2021",
            # expressions that END in a bare number (a unit / suffix pattern could pick up the head of the next word)
            "morgen um 8", "tomorrow at 5", "am 5", "friday 9", "heute 15", "3"]
    pods = [f for fs in G.LEX["pod"].values() for f in fs[:2]]
    out += pods[:6 if quick else len(pods)]
    seen, res = set(), []
    for t in out:
        if t not in seen:
            seen.add(t)
            res.append(t)
    return res


def run(ctx):
    rnd = random.Random(ctx.seed)
    ctx.rule_text = ("cases = expression (grammar productions + bundled corpus) x (number of inert words in front, behind) in 0..3 x latent on/off "
                     "x reference time; inert words are decided by running the library's own patterns over the word; distinct = distinct text")
    ctx.assumptions += ["the span of the embedded parse is compared with the span of the bare parse shifted by the prefix; for grammar "
                        "expressions the bare span must be the whole expression"]
    ctx.mc("Embed", "MC_Embed_trimmed.cfg")
    # inertness is decided by the tree's own patterns - except for the curated fragment words below, which ARE inert by
    # specification (they were on the pinned tree and are no time words in either language): a tree whose patterns have
    # started to match into them must not thereby escape the check
    lost = [w for w in FROZEN_INERT if not inert(w)]
    if lost:
        ctx.note("words that are inert by specification are matched by a pattern of this tree on their own: %r (still used as inert words)" % (lost,))
    words = [w for w in G.INERT_CANDIDATES if inert(w) or w in FROZEN_INERT]
    if len(words) < 8:
        raise core.obsmod.MachineryError("too few inert words: %r" % words)
    ctx.extra["inert_words"] = words
    exprs = [(t, (2018, 3, 7, 12, 43), 1) for t in grammar_exprs(rnd, ctx.quick)]
    from .c15 import corpus_sample
    exprs += [(qa.CTP._preprocess_string(t), ts, 0) for t, ts in corpus_sample(ctx.quick, ctx.seed, 3)]
    # lattice binding on bare and embedded texts
    lat = [{"text": t} for t, ts, full in exprs] + [{"text": rnd.choice(words) + " " + t + " " + rnd.choice(words)} for t, ts, full in exprs[::3]]
    # a label in the middle of an expression leaves two blanks; _regex_stack itself must cope with any run of blanks
    for t, ts, full in exprs[::2]:
        ws = t.split(" ")
        if len(ws) >= 2:
            k = rnd.randrange(1, len(ws))
            lat.append({"text": " ".join(ws[:k] + ["#tag"] + ws[k:])})
            lat.append({"text": " ".join(ws[:k]) + "   " + " ".join(ws[k:]), "raw": True})
    # the coverage filter under several relative_match_len values, on bare texts and behind inert words
    for t, ts, full in exprs[::2 if ctx.quick else 1]:
        for rel in ((1, 1), (19, 20), (4, 5), (1, 2)):
            lat.append({"text": t, "rel": rel})
            lat.append({"text": rnd.choice(words) + " " + rnd.choice(words) + " " + t, "rel": rel})
    lat = [c for c in lat if engine.text_size(c["text"])[1] <= 200]
    core.run_stage(ctx, "lattice", lat, obs_lattice, "LatticeTrace", sig_keys=(), nontrivial=lambda c: c["text"])
    cases = []
    shapes = [(0, 1), (1, 0), (1, 1), (0, 3), (3, 0), (2, 2), (3, 3)] if not ctx.quick else [(0, 1), (1, 0), (1, 1), (2, 3)]
    for t, ts, full in exprs:
        for (np_, ns) in shapes:
            pre = [rnd.choice(words) for _ in range(np_)]
            suf = [rnd.choice(words) for _ in range(ns)]
            text = " ".join(pre + [t] + suf)
            shift = len(" ".join(pre)) + (1 if pre else 0)
            for latent in (1, 0):
                if ctx.quick and latent == 0 and (np_ + ns) % 2:
                    continue
                cases.append({"text": text, "base": t, "ts": ts, "shift": shift, "latent": latent, "full": full and np_ == 0 and ns == 1,
                              "label": "prefix%d-suffix%d" % (min(np_, 1), min(ns, 1)), "form": "latent%d" % latent})
    # every "pattern fragment" word (head or tail is a piece of some pattern: st.., a.., very.., pm.., h/m/t + non-ASCII letter)
    # directly behind and directly in front of expressions that end / start with a bare number or a clock
    frag = [w for w in words if w in FROZEN_INERT]
    for t in ("morgen um 8", "tomorrow at 5", "am 5", "friday 9", "heute 15", "um 8:30", "at 8pm", "5.3.2021", "3 days", "early morning", "now",
              "before 5pm", "quarter to 8", "tomorrow"):
        for w in frag:
            for text, shift in ((t + " " + w, 0), (w + " " + t, len(w) + 1)):
                cases.append({"text": text, "base": t, "ts": (2018, 3, 7, 12, 43), "shift": shift, "latent": 1, "full": 0,
                              "label": "fragment-word", "form": "latent1"})
    # the same under relative_match_len < 1 (the coverage filter must not depend on where the expression starts)
    extra = []
    for c in cases:
        if c["latent"] == 1 and (len(c["text"]) + len(extra)) % (5 if ctx.quick else 2) == 0:
            for rel in (0.95, 0.8, 0.5):
                extra.append(dict(c, rel=rel, label=c["label"] + "/rel<1", full=0))
    cases += extra
    core.run_stage(ctx, "embeddings", cases, obs_embed, "VariantTrace", sig_keys=("label",), diagnose=diag_embed, nontrivial=lambda c: (c["text"], c["latent"], c.get("rel")))


def replay(ctx, rp):
    core.generic_replay(ctx, rp, STAGES)
