"""C01 - parsing is total: any text, reference time and options yield a result object."""
import itertools
import json
import os
import random
import subprocess
from datetime import datetime
from random import Random

from .. import core, engine, grammar as G, qa
from ..obs import MachineryError
from .c15 import corpus_texts

LEVEL = "model_checking"


def _scorer(kind, seed):
    if kind == "random":
        return qa.RandomScorer(Random(seed))
    if kind == "fallback":
        # the documented fallback when the shipped model file is absent
        import ctparse.loader as L
        old = L.DEFAULT_MODEL_FILE
        L.DEFAULT_MODEL_FILE = os.path.join(os.path.dirname(old), "no-such-model.pbz")
        try:
            return L.load_default_scorer()
        finally:
            L.DEFAULT_MODEL_FILE = old
    return qa.fresh_scorer(kind, seed)


def _shape(r):
    o = {"is_result": 1 if isinstance(r, qa.CTP.CTParse) else 0, "subject_is_str": 0, "labels_are_strs": 0, "str_ok": 0, "repr_ok": 0,
         "empty_iff_none": 1}
    if not o["is_result"]:
        return o
    o["subject_is_str"] = 1 if isinstance(r.subject, str) else 0
    o["labels_are_strs"] = 1 if isinstance(r.labels, list) and all(isinstance(x, str) for x in r.labels) else 0
    try:
        str(r)
        o["str_ok"] = 1
    except Exception:  # noqa: BLE001
        pass
    try:
        repr(r)
        o["repr_ok"] = 1
    except Exception:  # noqa: BLE001
        pass
    if r.resolution is not None:
        try:
            str(r.resolution), repr(r.resolution), r.resolution.nb_str()
        except Exception:  # noqa: BLE001
            o["str_ok"] = 0
    return o


def obs_call(case):
    ts = None if case["ts"] is None else datetime(*case["ts"])
    kw = dict(timeout=case.get("timeout", 0), relative_match_len=case["rel"], max_stack_depth=case["depth"],
              latent_time=bool(case["latent"]), scorer=_scorer(case["scorer"], case.get("seed", 0)))
    out = []
    for entry in case["entries"]:
        o = {"entry": entry, "raised": 0, "exc": "none", "terminated": 1, "is_result": 1, "subject_is_str": 1, "labels_are_strs": 1,
             "str_ok": 1, "repr_ok": 1, "empty_iff_none": 1}
        try:
            if entry == "single":
                o.update(_shape(qa.CTP.ctparse(case["text"], ts, **kw)))
            elif entry == "debug":
                it = qa.CTP.ctparse(case["text"], ts, debug=True, **kw)
                n = 0
                for c in it:
                    n += 1
                    if c is not None:
                        sh = _shape(c)
                        for k, v in sh.items():
                            o[k] = min(o[k], v)
            elif entry == "zip":
                # two candidate streams consumed alternately (a caller comparing two inputs side by side): neither may raise
                g1 = qa.CTP.ctparse_gen(case["text"], ts, **kw)
                g2 = qa.CTP.ctparse_gen(case.get("other", "tomorrow 8pm"), ts, **kw)
                live = [g1, g2]
                while live:
                    for g in list(live):
                        try:
                            c = next(g)
                        except StopIteration:
                            live.remove(g)
                            continue
                        if c is not None:
                            sh = _shape(c)
                            for k, v in sh.items():
                                o[k] = min(o[k], v)
            else:
                g = qa.CTP.ctparse_gen(case["text"], ts, **kw)
                for c in g:
                    if c is not None:
                        sh = _shape(c)
                        for k, v in sh.items():
                            o[k] = min(o[k], v)
                try:
                    next(g)
                    o["terminated"] = 0
                except StopIteration:
                    pass
        except Exception as ex:  # noqa: BLE001
            o["raised"] = 1
            o["exc"] = type(ex).__name__
        out.append(o)
    return out


def import_without_model():
    """Fresh interpreter whose shipped model file is 'absent' at import time."""
    code = ("import sys, json, os; sys.path.insert(0, '%s'); import warnings; warnings.simplefilter('ignore');"
            "import logging; logging.disable(logging.CRITICAL);"
            "_ex = os.path.exists; os.path.exists = lambda p: False if str(p).endswith('model.pbz') else _ex(p);"
            "import ctparse; m = sys.modules['ctparse.ctparse']; from datetime import datetime;"
            "r = m.ctparse('tomorrow 8pm', datetime(2018,3,7,12,43), timeout=0); r2 = m.ctparse('xyzzy', datetime(2018,3,7,12,43));"
            "print(json.dumps({'scorer': type(m._DEFAULT_SCORER).__name__, 'res': str(r.resolution), 's1': str(r), 's2': str(r2)}))")
    code = code % qa.REPO
    p = subprocess.run(["/venv/bin/python", "-c", code], stdout=subprocess.PIPE, stderr=subprocess.PIPE, text=True, timeout=120)
    return p


def _exc_of(case, reject):
    """The exception type is part of a finding's signature (another exception on the same input family is another finding)."""
    return {"exc": str(reject.get("detail", "")).strip('"\\ ')} if reject.get("clause") == "raised" else {}


STAGES = {"api-calls": (obs_call, "TotalTrace")}

CHARS = {"S": " \t,;()[] ​　", "D": "-–—‐", "L": "aZmhäß", "N": "0123456789", "P": "#.:/'@_",
         "X": "\U0001f600́中א\u0000"}


def run(ctx):
    rnd = random.Random(ctx.seed)
    ctx.rule_text = ("cases = text (class strings over separator/dash/letter/digit/punctuation/exotic up to length 6 instantiated, token soups, "
                     "hazard list, corpus) x reference time 1970-2100 (leap days, month/year ends, sub-minute parts, omitted) x options "
                     "(latent, depth 0/1/10, relative_match_len, scorer shipped/constant/random/model-absent fallback, debug); each case = "
                     "ctparse + exhaustion of ctparse_gen (+ debug=True); distinct = distinct (text, reference time, options)")
    ctx.assumptions += ["no wall-clock timeout in the sweep (timeout=0; a smoke subset uses a tiny real timeout); termination without timeout is the model-level result (Derive: Decreasing)",
                        "depth-0 (exhaustive) runs only for texts with <= 8 matches and <= 30 candidate sequences"]
    for fam in ("date", "clock", "dur", "pod", "podrange", "range"):
        ctx.mc("Derive", "MC_Derive_%s_%s.cfg" % (fam, "q" if ctx.quick else "t"), timeout=3000, heap="8g")
    ctx.mc("MC_SearchImpl", "MC_SearchImpl_I1_d0x.cfg")
    ctx.mc("MC_SearchImpl", "MC_SearchImpl_I2_d2.cfg")
    ctx.mc("Preprocess", "MC_Preprocess.cfg")
    ctx.mc("Api", "MC_Api.cfg")
    texts = []
    for n in range(0, 5 if ctx.quick else 6):
        for cls in itertools.product("SDLNPX", repeat=n):
            if ctx.quick and n >= 4 and rnd.random() > 0.25:
                continue
            texts.append("".join(rnd.choice(CHARS[c]) for c in cls))
    texts += G.soups(rnd, 300 if ctx.quick else 3000, 1, 6)
    texts += ["31.04.2020 for 1 day", "31.04.2020 8:00 - 9:00", "early early early early morning", "tomorrow for 99999999999 days",
              "heute für 99999999999999999999 monate", "#", "##", "#tag", "#1abc", "# tag", "a" * 300, "8 " * 6, "mon " * 5,
              "1.1.1", "31.12.9999", "31.12.9999 for 2 days", "0 uhr", "24:00", "99:99", "12am", "0am", "13pm", "feb 30 2019",
              "29.2.2100", "29.02.00", "31.", "31. 31. 31.", "- - -", "to to to", "am um at", "von bis", "between and",
              # long gap-free runs of one kind of token: the model's log-odds get extreme (hundreds of nats)
              "-/" * 200, "- " * 300, "to " * 200, "and " * 150, "#x " + "–" * 1 + " -" * 350, "monday " * 40]
    # amounts beyond any calendar arithmetic, next to a date and next to a date RANGE (float overflow in relativedelta from 309 digits on;
    # int() refuses more than 4300 digits)
    for big in ("9" * 12, "9" * 40, "9" * 320):
        for f in ("5.-7.3.2020 %s tage", "%s tage 5.-7.3.2020", "5.3.2020 - 7.3.2020 für %s minuten", "tomorrow for %s weeks", "%s hours", "%s nächte 1.1. - 3.1."):
            texts.append(f % big)
    texts.append("1" * 4301 + " tage")      # (one text only: the pattern engine needs seconds for it)
    texts += [t for t, _ in corpus_texts()[::7 if ctx.quick else 1]]
    tss = [(1970, 1, 1, 0, 0, 0, 0), (2100, 12, 31, 23, 59, 59, 999999), (2020, 2, 29, 12, 0, 30, 5), (2019, 2, 28, 23, 59, 59, 1),
           (2018, 1, 31, 0, 0), (2018, 12, 31, 12, 0), (2000, 2, 29, 6, 6, 6), (2018, 3, 7, 12, 43), None, (2099, 1, 1, 0, 0), (1999, 12, 31, 23, 59, 59)]
    cases = []
    for i, t in enumerate(texts):
        nm, ns = engine.text_size(t)
        combos = list(itertools.product((1, 0), (10, 1, 0), (1.0, 0.5, 0.1), ("shipped", "dummy", "random", "fallback")))
        rnd.shuffle(combos)
        picked = combos[:3 if ctx.quick else 10]
        if not any(c[3] == "shipped" and c[1] == 10 for c in picked):
            picked = picked + [(1, 10, 1.0, "shipped")]      # every text at least once under the defaults (shipped model)
        for (latent, depth, rel, scorer) in picked:
            if depth == 0 and (nm > 8 or ns > 30):
                depth = 10
            cases.append({"text": t, "ts": rnd.choice(tss), "latent": latent, "depth": depth, "rel": rel, "scorer": scorer,
                          "seed": i, "entries": ["single", "gen"] + (["debug"] if i % 5 == 0 else []) + (["zip"] if i % 4 == 1 else []),
                          "other": texts[(i * 7 + 3) % len(texts)] if engine.text_size(texts[(i * 7 + 3) % len(texts)])[1] <= 30 else "tomorrow 8pm",
                          "label": "opts",
                          "form": "%s/d%d" % (scorer, depth)})
    # weekday + day of month: the next such date can be more than a year away (every weekday x days 28-31 x all reference times)
    for wd in ("monday", "tuesday", "wednesday", "thursday", "friday", "saturday", "sunday", "mittwoch"):
        for d in (28, 29, 30, 31):
            for ts in tss:
                if ts is None:
                    continue
                for ts2 in (ts, (ts[0], 1, 1, 0, 0), (ts[0], 8, 10, 12, 0)):
                    cases.append({"text": "%s %d%s" % (wd, d, G.ordinal_suffix(d)), "ts": ts2, "latent": 1, "depth": 10, "rel": 1.0,
                                  "scorer": "shipped", "seed": 0, "entries": ["single", "gen"], "label": "dow-dom", "form": "dow-dom"})
    # relative-day forms on the days around every New Year 2015-2031 (ISO week 53 / week 1 of the neighbouring year)
    for y in range(2015, 2032):
        for (mm, dd) in ((12, 28), (12, 29), (12, 30), (12, 31), (1, 1), (1, 2), (1, 3), (1, 4)):
            for t in ("this monday", "diesen sonntag", "next friday", "monday next week", "on thursday", "tomorrow", "eom", "end of year", "sunday"):
                cases.append({"text": t, "ts": (y, mm, dd, 12, 0), "latent": 1, "depth": 10, "rel": 1.0, "scorer": "shipped", "seed": 0,
                              "entries": ["single"], "label": "new-year", "form": "new-year"})
    # clock ranges over all 24x24 hour pairs (the 9-5 / day-wrap arithmetic branches on both hours), bare, dated, with minutes
    forms = ["%d-%d", "%d:00-%d:00", "%d:30-%d:00", "%d:15 bis %d:15 uhr", "tomorrow %d-%d", "1.1.2020 %d:30 - %d:00", "%d to %d", "von %d bis %d uhr",
             # both ends dated, hours without minutes (the ordering guards compare missing minutes)
             "1.1.2020 %d uhr - 1.1.2020 %d uhr", "1.1.2020 %d uhr - 1.1.2020 %d:30", "1.1.2020 %d:30 - 1.1.2020 %d uhr", "1.1.2020 %dh bis 2.1.2020 %dh"]
    for h1 in range(24):
        for h2 in range(24):
            fs = forms if (h1 == h2 or (h1 % 12 == 0 and h2 % 12 == 0)) else rnd.sample(forms, 1 if ctx.quick else 4)
            for f in fs:
                for latent in ((1, 0) if h1 == h2 or not ctx.quick else (rnd.choice((1, 0)),)):
                    cases.append({"text": f % (h1, h2), "ts": (2018, 3, 7, 12, 43), "latent": latent, "depth": 10, "rel": 1.0, "scorer": "shipped",
                                  "seed": 0, "entries": ["single", "gen"], "label": "clock-range", "form": "clock-range"})
    # digits that the pattern engine (regex module, newer Unicode tables) accepts as \d but int() of this interpreter does not know
    import regex as _regex
    newd = [chr(cp) for cp in range(0x10000, 0x20000) if _regex.match(r"\d", chr(cp)) and not chr(cp).isdigit()][:: 9 if ctx.quick else 1]
    for d in newd:
        for f in ("%s uhr", "um %s", "1.1.%s%s", "%s:30", "3 %s tage", "%s. mai"):
            cases.append({"text": f.replace("%s", d), "ts": (2018, 3, 7, 12, 43), "latent": 1, "depth": 10, "rel": 1.0, "scorer": "shipped", "seed": 0,
                          "entries": ["single"], "label": "digit-unknown-to-int", "form": "digit-unknown-to-int"})
    ctx.stage_counts["digits-unknown-to-int"] = {"code_points": len(newd)}
    # smoke subset under a tiny REAL timeout (the expiry point is not controlled here; C13 enumerates them)
    for t in texts[::40]:
        cases.append({"text": t, "ts": (2018, 3, 7, 12, 43), "latent": 1, "depth": 10, "rel": 1.0, "scorer": "shipped", "timeout": 0.0001,
                      "entries": ["single", "gen"], "label": "real-timeout", "form": "timeout"})
    core.run_stage(ctx, "api-calls", cases, obs_call, "TotalTrace", sig_keys=("form",), diagnose=_exc_of,
                   nontrivial=lambda c: (c["text"], str(c["ts"]), c["latent"], c["depth"], c["rel"], c["scorer"]))
    # configuration fault: the shipped model file is absent when the package is imported
    p = import_without_model()
    ctx.evaluations += 1
    ok = p.returncode == 0 and '"scorer": "DummyScorer"' in p.stdout
    obs = [{"entry": "import-without-model", "raised": 0 if ok else 1, "exc": "none" if ok else "import-or-parse-failed", "terminated": 1,
            "is_result": 1, "subject_is_str": 1, "labels_are_strs": 1, "str_ok": 1, "repr_ok": 1, "empty_iff_none": 1}]
    v = ctx.judge("TotalTrace", obs)
    for r in v.rejects:
        ctx.violation({"stage": "model-absent", "clause": r["clause"]}, "package import / parse with the shipped model file absent failed: "
                      + p.stderr[-300:], {"stage": "model-absent", "stderr": p.stderr[-1000:], "stdout": p.stdout[-500:]})
    ctx.stage_counts["model-absent-import"] = {"ok": ok, "stdout": p.stdout[:300]}


def replay(ctx, rp):
    core.generic_replay(ctx, rp, STAGES)
