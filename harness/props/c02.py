"""C02 - every resolution is a well-formed calendar value; accessors never fail."""
import random
from datetime import datetime

from .. import core, engine, grammar as G, qa
from .c15 import corpus_texts

LEVEL = "model_checking"


def _acc(obj, name):
    try:
        v = getattr(obj, name)
        return 1, ({"k": "N"} if v is None else (qa.val_json(v) if not isinstance(v, datetime) else {"k": "N"}))
    except Exception:  # noqa: BLE001
        return 0, {"k": "N"}


def obs_cands(case):
    ts = datetime(*case["ts"])
    txt = qa.CTP._preprocess_string(case["text"])
    import re
    n = len(re.sub('#[a-zA-Z0-9_-]+', '', txt).strip())
    out = []
    rec = qa.Recorder()
    with qa.recording(rec):
        for c in qa.CTP.ctparse_gen(case["text"], ts, timeout=0, max_stack_depth=case["depth"], latent_time=bool(case["latent"]),
                                    scorer=qa.fresh_scorer(case.get("scorer", "shipped"), 1)):
            if c is None:
                continue
            r = c.resolution
            if isinstance(r, qa.T.Duration):
                a1, sv, a2, ev = 1, {"k": "N"}, 1, {"k": "N"}      # a Duration has no start/end accessors
            else:
                a1, sv = _acc(r, "start")
                a2, ev = _acc(r, "end")
            has_date = 1 if (isinstance(r, qa.T.Time) and r.hasDate) else 0
            a3 = 1
            if has_date:
                a3, _ = _acc(r, "dt")
            out.append({"val": qa.val_json(r), "s": int(r.mstart), "e": int(r.mend), "n": n, "acc_start": a1, "acc_end": a2,
                        "acc_dt": a3, "has_date": has_date, "start": sv, "end": ev})
    case["_rows"] = [r for r in rec.rows.values() if qa.row_in_model(r)]
    return out


def obs_rows(case):
    obs_cands(case)
    return case["_rows"]


STAGES = {"candidates": (obs_cands, "CandTrace"), "rule-rows": (obs_rows, "RulesTrace")}


def make_cases(ctx, rnd):
    from .c15 import corpus_sample
    texts = list(corpus_sample(ctx.quick, ctx.seed, 3))
    hazards = ["31.04.2020", "31.04.", "29.2.", "30.2.2019", "31. april", "29. feb 2019", "28.2.2019 - 30", "29.2. - 5.3.2019",
               "early early early early morning", "very early early late morning", "23:30-3:35", "9-5", "12:35-0:30", "12am", "0:00 - 0:00",
               "tomorrow 23:30 - 3:35", "31.12.2019 23:59 for 2 minutes", "31.1.2020 for 1 month", "29.2.2020 for 12 months",
               "monday 31.", "feb 30", "8pm", "at 8", "8 8", "mon - fri", "1.1. - 31.12.", "first", "last", "spätestens 31.04.", "24.12. 17 uhr",
               # century years are not leap years unless divisible by 400
               "29.2.1900", "29. feb 1900", "29.02.2000", "28.2.1900 - 29", "1900", "29 february 1900 8:00"]
    texts += [(t, (2018, 3, 7, 12, 43)) for t in hazards]
    # reference times in a century year that is not a leap year (2100): year-less dates take their year from it
    texts += [(t, (2100, 2, 10, 9, 0)) for t in ["29.2.", "15.2. - 29.", "29. feb", "28.2. - 29.2.", "feb 29 8pm", "29.", "29.2. for 1 day"]]
    texts += [(t, (2100, 2, 28, 23, 59)) for t in ["tomorrow", "29.", "29.2.", "in 1 day"[3:]]]
    # rendering of Derive's "podrange" family: <part of day> <end> - <end>, ends with or without a written date
    pr = []
    clocks = ["8:00", "13:00", "1:00", "0:00", "11:30", "12:00", "8", "23:59"]
    for pw in ("abends", "nachmittags", "morgens", "evening", "night", "afternoon", "nachts", "mittags"):
        for a in clocks:
            for b in clocks:
                pr += ["%s 1.1.2020 %s - 1.1.2020 %s" % (pw, a, b), "%s tomorrow %s - %s" % (pw, a, b), "%s %s - %s" % (pw, a, b),
                       "%s 1.1.2020 %s - 2.1.2020 %s" % (pw, a, b), "1.1.2020 %s %s - %s" % (pw, a, b)]
    # ... and of the "range" family: no part of day, from/between, a trailing date, a trailing duration
    for a in clocks:
        for b in clocks:
            pr += ["%s - %s 1.1.2020" % (a, b), "from %s to %s tomorrow" % (a, b), "1.1.2020 %s - %s for 2 hours" % (a, b), "%s - %s 90 minutes" % (a, b),
                   "1.1.2020 %s - 2.1.2020 %s" % (a, b), "between %s and %s" % (a, b), "tomorrow %s - 1.1.2020 %s" % (a, b)]
    # <day> <part of day> for <duration>: the end is computed from the start of the part of day
    pd = []
    for pw in ("evening", "abends", "morning", "nachmittags", "night", "noon", "late evening", "early morning"):
        for dw in ("tomorrow", "1.1.2020", "friday", "31.12.2019"):
            for du in ("for 2 hours", "for 90 minutes", "for 1 day", "für 3 stunden", "for 20 hours", "for 2 nights"):
                pd += ["%s %s %s" % (dw, pw, du), "%s %s %s" % (pw, dw, du)]
    rnd.shuffle(pd)
    texts += [(t, (2018, 3, 7, 12, 43)) for t in pd[:60 if ctx.quick else len(pd)]]
    rnd.shuffle(pr)
    texts += [(t, (2018, 3, 7, 12, 43)) for t in pr[:260 if ctx.quick else 3100]]
    tss = [(2018, 3, 7, 12, 43), (2020, 2, 29, 23, 59), (2019, 1, 31, 0, 0), (2018, 12, 31, 12, 0), (2023, 11, 5, 20, 30),
           (2100, 2, 27, 10, 0), (2000, 2, 28, 10, 0)]
    for t in G.soups(rnd, 400 if ctx.quick else 4000):
        texts.append((t, rnd.choice(tss)))
    cases = []
    for t, ts in texts:
        nm, ns = engine.text_size(t)
        for latent in (1, 0):
            depth = 10
            cases.append({"text": t, "ts": ts, "latent": latent, "depth": depth, "label": "cand", "form": "latent%d" % latent})
        if nm <= 7 and ns <= 20:
            cases.append({"text": t, "ts": ts, "latent": 1, "depth": 0, "scorer": "dummy", "label": "cand", "form": "depth0"})
    return cases


def run(ctx):
    rnd = random.Random(ctx.seed)
    ctx.rule_text = ("model: all token sequences of length <= K over the representative alphabet x reference times (Derive.tla); "
                     "implementation: (text x reference time x latent on/off x depth) runs, every streamed candidate judged; distinct = distinct run")
    ctx.assumptions += ["texts: bundled corpus + hazard list + random sequences of lexemes of every pattern (rendering of Derive's alphabet)",
                        "the span is measured against the normalised text with labels removed (what the engine matches on)"]
    for fam in ("date", "clock", "dur", "pod", "podrange", "range"):
        ctx.mc("Derive", "MC_Derive_%s_%s.cfg" % (fam, "q" if ctx.quick else "t"), timeout=3000, heap="8g")
    cases = make_cases(ctx, rnd)
    core.run_stage(ctx, "candidates", cases, obs_cands, "CandTrace", sig_keys=("form",),
                   nontrivial=lambda c: (c["text"], c["ts"], c["latent"], c["depth"]))
    sub = [c for c in cases if c["latent"] == 0]
    core.run_stage(ctx, "rule-rows", sub, obs_rows, "RulesTrace", sig_keys=(), nontrivial=lambda c: (c["text"], c["ts"]))


def replay(ctx, rp):
    core.generic_replay(ctx, rp, STAGES)
