"""C06 - every clock notation of one time of day resolves to that hour and minute."""
import random
from datetime import datetime, timedelta

from .. import core, e2e, grammar as G, qa
from . import common

LEVEL = "model_checking"


def rows_for_minute(case):
    h, mi = case["hm"]
    ts = e2e.ts_of(case["ts"])
    T = qa.T
    rows = []
    h12 = 12 if h % 12 == 0 else h % 12
    ap = "am" if h < 12 else "pm"
    for txt in ("%d:%02d" % (h, mi), "%02d.%02d" % (h, mi), "%dh%02d" % (h, mi), "%d:%02d%s" % (h12, mi, ap),
                "%d:%02d %s.m." % (h12, mi, ap[0])) + (("%d" % h, "%d uhr" % h, "%d%s" % (h12, ap), "%dh %s" % (h12, ap)) if mi == 0 else ()):
        rows.append(common.call_rule("ruleHHMM", ts, [common.token("ruleHHMM", txt)]))
    for txt in ("%02d%02d" % (h, mi), "%02d%02d uhr" % (h, mi), "%02d%02dh" % (h, mi)):
        rows.append(common.call_rule("ruleHHMMmilitary", ts, [common.token("ruleHHMMmilitary", txt)]))
    if mi == 0:
        rows.append(common.call_rule("ruleHHOClock", ts, [common.token("ruleHHOClock", "%d o'clock" % h)]))
        if 1 <= h <= 12:
            for nm in G.LEX["named_hour"][str(h)]:
                rows.append(common.call_rule("ruleNamedHour", ts, [common.token("ruleNamedHour", nm)]))
        tod = T.Time(hour=h, minute=0)
        for rn, word in (("ruleQuarterBeforeHH", "quarter to"), ("ruleQuarterAfterHH", "quarter past"),
                         ("ruleHalfBeforeHH", "halb"), ("ruleHalfAfterHH", "half past")):
            rows.append(common.call_rule(rn, ts, [common.token(rn, word), tod]))
            rows.append(common.call_rule(rn, ts, [common.token(rn, word), T.Time(hour=h)]))
        for p in case["pods"]:
            rows.append(common.call_rule("ruleTODPOD", ts, [T.Time(hour=h), T.Time(POD=p)]))
            rows.append(common.call_rule("rulePODTOD", ts, [T.Time(POD=p), tod]))
    elif mi == 30:
        for p in case["pods"]:
            rows.append(common.call_rule("ruleTODPOD", ts, [T.Time(hour=h, minute=mi), T.Time(POD=p)]))
    else:
        rows.append(common.call_rule("ruleQuarterAfterHH", ts, [common.token("ruleQuarterAfterHH", "quarter past"), T.Time(hour=h, minute=mi)]))
    # latent anchoring of this minute from reference minutes around it
    for rm in case["refs"]:
        t = ts.replace(hour=rm // 60, minute=rm % 60)
        rows.append(common.call_post(t, T.Time(hour=h, minute=mi)))
        # the reference time is rarely on a full minute: "the same minute" must not depend on its seconds
        for sec, us in ((59, 999999), (0, 1), (30, 0)):
            rows.append(common.call_post(t.replace(second=sec, microsecond=us), T.Time(hour=h, minute=mi)))
        if mi == 0:
            rows.append(common.call_post(t, T.Time(hour=h)))
    return rows


STAGES = {
    "rule-rows": (rows_for_minute, "RulesTrace"),
    "e2e-notations": (e2e.obs_clock, "DenoteTrace"),
    "e2e-latent": (e2e.obs_clock, "DenoteTrace"),
}


def run(ctx):
    rnd = random.Random(ctx.seed)
    ctx.rule_text = ("cases = (hour, minute) x clock notation x latent on/off x reference time; distinct = distinct (stage, text, "
                     "latent flag, reference time)")
    ctx.assumptions += ["a date-less result with the minute absent denotes minute 0 (8 o'clock = 08:00)",
                        "four-digit HHMM without 'uhr/h' only for minutes that are multiples of 5 and not year-like (documented heuristic)"]
    ctx.mc("MC_Denote", "MC_Denote_C06_q.cfg" if ctx.quick else "MC_Denote_C06_t.cfg", timeout=3000)
    common.random_rows_stage(ctx, "C06", post=True)
    pods = [p for p in qa.PODS if p in qa.T.pod_hours]
    allpods = sorted(qa.T.pod_hours)        # every key of the table, modifiers included ("earlyafternoon" starts at 11 but is pm)
    cases = []
    for h in range(24):
        for mi in range(60):
            hm = h * 60 + mi
            refs = sorted({0, 1439, hm, (hm + 1) % 1440, (hm - 1) % 1440, rnd.randrange(1440)})
            if not ctx.quick:
                refs = sorted(set(refs) | set(range(0, 1440, 7)))
            for ts in ((2019, 12, 31, 12, 0), (2020, 2, 28, 12, 0)) + (() if ctx.quick else ((2021, 4, 30, 12, 0),)):
                cases.append({"hm": (h, mi), "ts": ts, "refs": refs, "pods": allpods if (ts[1] == 12 and mi in (0, 30)) else pods[:3]})
    core.run_stage(ctx, "rule-rows", cases, rows_for_minute, "RulesTrace", sig_keys=(), nontrivial=lambda c: (c["hm"], c["ts"]))
    # end to end, latent off: every notation of the minute
    minutes = [0, 5, 15, 30, 45, 59] if ctx.quick else list(range(60))
    cases = []
    for h in range(24):
        for mi in minutes:
            for lab, text, C in G.clock_forms(h, mi):
                cases.append({"text": text, "C": C, "ts": (2018, 3, 7, 12, 43), "latent": 0, "label": lab, "form": lab})
    for h in range(1, 12):
        for ph, pm in (("in the early afternoon", 1), ("am frühen nachmittag", 1), ("in the late evening", 1), ("in the late morning", 0),
                       ("am späten vormittag", 0), ("in the early evening", 1)):
            for f in ("%d uhr %s", "%d:00 %s", "at %d o'clock %s"):
                cases.append({"text": f % (h, ph), "C": G.clock(h + 12 * pm, 0), "ts": (2018, 3, 7, 12, 43), "latent": 0,
                              "label": "clock:h uhr modified POD", "form": "clock:h uhr modified POD"})
    core.run_stage(ctx, "e2e-notations", cases, e2e.obs_clock, "DenoteTrace")
    # latent on: reference times on both sides of the requested minute, incl. equality and roll-overs
    cases = []
    reps = ("clock:H:MM", "clock:h:mm ampm", "clock:H uhr", "clock:h ampm", "clock:named hour", "clock:HHMM uhr")
    for h in range(24):
        for mi in minutes:
            forms = {}
            for lab, text, C in G.clock_forms(h, mi):
                if lab in reps:
                    forms.setdefault(lab, (lab, text, C))
            hm = h * 60 + mi
            for base in ((2019, 12, 31), (2020, 2, 29), (2021, 4, 30)):
                for rm in sorted({hm, (hm + 1) % 1440, (hm - 1) % 1440, 0, 1439}):
                    for lab, text, C in forms.values():
                        if ctx.quick and lab != "clock:H:MM" and rm not in (hm, 1439):
                            continue
                        cases.append({"text": text, "C": C, "ts": base + (rm // 60, rm % 60), "latent": 1, "label": lab, "form": lab})
                        if lab == "clock:H:MM" and rm in (hm, (hm + 1) % 1440):
                            cases.append({"text": text, "C": C, "ts": base + (rm // 60, rm % 60, 47, 123456), "latent": 1,
                                          "label": lab, "form": lab + " (sub-minute reference)"})
    core.run_stage(ctx, "e2e-latent", cases, e2e.obs_clock, "DenoteTrace")


def replay(ctx, rp):
    core.generic_replay(ctx, rp, STAGES)
