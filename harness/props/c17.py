"""C17 - training data are truthful: one sample per trace prefix, labelled by value."""
import itertools
import json
import os
import random
from datetime import datetime

from .. import core, qa
from ctparse import corpus as C
from ctparse.nb_scorer import train_naive_bayes

LEVEL = "exploration"


def _stream(text, ts, timeout, depth, scorer, rel=1.0):
    out = []
    for p in qa.CTP.ctparse_gen(text, ts, relative_match_len=rel, timeout=timeout, max_stack_depth=depth, scorer=scorer, latent_time=False):
        if p is None:
            continue
        out.append({"prod": [str(x) for x in p.production], "val": qa.val_json(p.resolution)})
    return out


class _RoundedScorer(qa.Scorer):
    """The shipped model with scores rounded to integers: non-constant AND full of exact ties."""

    def __init__(self):
        self.inner = qa.fresh_scorer("shipped")

    def score(self, txt, ts, pp):
        return float(round(self.inner.score(txt, ts, pp)))

    def score_final(self, txt, ts, pp, prod):
        return float(round(self.inner.score_final(txt, ts, pp, prod) / 50.0))


def _mk_scorer(case):
    """A fresh scorer per use (the builder and the independently recorded stream must see the same scores)."""
    kind = case.get("scorer", "dummy")
    if kind == "rounded":
        return _RoundedScorer()
    if kind == "random":
        from random import Random
        return qa.RandomScorer(Random(case.get("sseed", 1)))
    return qa.fresh_scorer(kind)


def obs_entry(case):
    """case["entries"]: list of (text, ts, gold string) handed to the builder in ONE call."""
    ents = case["entries"]
    exp = []
    if case["builder"] == "make_partial_rule_dataset":
        entries = [C.TimeParseEntry(text=t, ts=datetime(*ts), gold=C.parse_nb_string(g)) for t, ts, g in ents]
        samples = list(C.make_partial_rule_dataset(entries, _mk_scorer(case), timeout=0, max_stack_depth=case["depth"]))
        sm = [{"X": list(x), "y": 1 if y else 0} for x, y in samples]
        for t, ts, g in ents:
            exp.append({"cands": _stream(t, datetime(*ts), 0, case["depth"], _mk_scorer(case)), "gold": qa.val_json(C.parse_nb_string(g))})
    else:
        try:
            Xs, ys = C.run_corpus([(g, datetime(*ts).strftime("%Y-%m-%dT%H:%M"), [t]) for t, ts, g in ents])
        except Exception:  # noqa: BLE001
            # run_corpus is a strict checker: by contract it raises when a target is never produced
            # (incl. ValueError from max() when a text yields no candidate at all); nothing is emitted then
            return []
        sm = [{"X": list(x), "y": 1 if y else 0} for x, y in zip(Xs, ys)]
        for t, ts, g in ents:
            exp.append({"cands": _stream(t, datetime(*ts), 0, 0, qa.DummyScorer()), "gold": qa.val_json(C.parse_nb_string(g))})
    return {"kind": "samples", "builder": case["builder"], "entries": exp, "samples": sm, "before": 0, "after": 0, "k": 0}


def obs_mono(case):
    X = [list(d) for d in case["docs"]]
    y = list(case["labels"])
    doc = X[case["idx"]]
    m0 = train_naive_bayes(X, y)
    p0 = m0.predict_log_proba([doc])[0]
    X2 = X + [list(doc)] * case["k"]
    y2 = y + [True] * case["k"]
    m1 = train_naive_bayes(X2, y2)
    p1 = m1.predict_log_proba([doc])[0]
    s0, s1 = p0[1] - p0[0], p1[1] - p1[0]
    # ranks: exact order of the two floats (an increase by less than 1e-12 is float noise)
    if abs(s1 - s0) < 1e-12:
        b, a = 0, 0
    else:
        b, a = (0, 1) if s1 > s0 else (1, 0)
    return {"kind": "mono", "builder": "train", "entries": [], "samples": [], "before": b, "after": a, "k": case["k"]}


STAGES = {"dataset-builders": (obs_entry, "TrainingTrace"), "duplication-monotone": (obs_mono, "TrainingTrace")}


def run(ctx):
    import logging
    rnd = random.Random(ctx.seed)
    ctx.rule_text = ("entries = bundled dataset + bundled corpora + generated entries of every result type (Time, Interval, Duration, matching and "
                     "not matching gold), each through both dataset builders; training sets = all sets of <= 3 traces of length <= 3 over an alphabet of 2 "
                     "(both classes present) x duplicated positive example x k in 1..3, seeded random sets beyond; distinct = distinct entry / training set")
    ctx.assumptions += ["monotonicity under duplication is tested (exhaustively on the tiny domain, randomly above it), not proved",
                        "scores of the two models enter TLC as ranks"]
    ctx.mc("ValueDomain", "MC_ValueDomain.cfg")
    entries = []
    with open(os.path.join(qa.REPO, "datasets", "timeparse_corpus.json"), encoding="utf8") as fd:
        data = json.load(fd)
    for e in (data[ctx.seed % 25::25] if ctx.quick else data[::3]):
        d = datetime.strptime(e["ref_time"], "%Y-%m-%dT%H:%M:%S")
        entries.append((e["text"], (d.year, d.month, d.day, d.hour, d.minute), e["gold_parse"]))
    from ctparse.time.corpus import corpus
    for target, ts, tests in (corpus[ctx.seed % 4::4] if ctx.quick else corpus):
        d = datetime.strptime(ts, "%Y-%m-%dT%H:%M")
        for t in tests[:2]:
            entries.append((t, (d.year, d.month, d.day, d.hour, d.minute), target))
    ts0 = (2018, 3, 7, 12, 43)
    entries += [("3 days", ts0, "Duration[]{3 days}"), ("three days", ts0, "Duration[]{3 days}"), ("3 days", ts0, "Duration[]{4 days}"),
                ("3 days", ts0, "Duration[]{3 nights}"), ("half an hour", ts0, "Duration[]{30 minutes}"),
                ("tomorrow 9-5", ts0, "Interval[]{2018-03-08 09:00 (X/X) - 2018-03-08 17:00 (X/X)}"),
                ("tomorrow 9-5", ts0, "Interval[]{2018-03-08 09:00 (X/X) - 2018-03-08 05:00 (X/X)}"),
                ("after 5.3.2021", ts0, "Interval[]{2021-03-05 X:X (X/X) - None}"), ("8pm", ts0, "Time[]{X-X-X 20:00 (X/X)}"),
                ("8pm", ts0, "Time[]{X-X-X 08:00 (X/X)}"), ("xyzzy", ts0, "Time[]{X-X-X 08:00 (X/X)}"),
                ("5.3.2021 for 3 days", ts0, "Interval[]{2021-03-05 X:X (X/X) - 2021-03-08 X:X (X/X)}")]
    cases = []
    from .. import engine
    for text, ts, gold in entries:
        cases.append({"entries": [(text, ts, gold)], "builder": "make_partial_rule_dataset", "depth": 10})
        # a value is streamed again when a later derivation scores strictly higher: non-constant scorers
        for sc in ("shipped", "rounded"):
            cases.append({"entries": [(text, ts, gold)], "builder": "make_partial_rule_dataset", "depth": 10, "scorer": sc})
        nm, ns = engine.text_size(text)
        if nm <= 9 and ns <= 30:
            cases.append({"entries": [(text, ts, gold)], "builder": "run_corpus", "depth": 0})
    # batches in ONE call: shuffled entries, the same text and reference time under different gold annotations,
    # exact duplicates (a per-call cache must not confuse them)
    small = [e for e in entries if engine.text_size(e[0])[0] <= 9 and engine.text_size(e[0])[1] <= 30]
    for b in range(6 if ctx.quick else 40):
        batch = rnd.sample(entries, min(len(entries), rnd.randint(3, 8)))
        t, ts, g = rnd.choice(batch)
        other = rnd.choice([x[2] for x in entries if x[2] != g])
        batch += [(t, ts, other), (t, ts, g)]
        rnd.shuffle(batch)
        cases.append({"entries": batch, "builder": "make_partial_rule_dataset", "depth": 10})
        sb = rnd.sample(small, min(len(small), 4))
        cases.append({"entries": sb + [sb[0]], "builder": "run_corpus", "depth": 0})
    # run_corpus: the same test string and reference time under two DIFFERENT targets that the text really produces
    # (a per-call cache keyed without the target must not hand the second entry the first one's labels)
    for text in ["tomorrow 9-5", "8pm tomorrow", "5.3.2021 for 3 days", "monday 8", "1.1. - 3.1.", "heute 15 uhr", "in the morning", "9-5"]:
        outs = []
        for c in qa.CTP.ctparse_gen(text, datetime(*ts0), timeout=0, max_stack_depth=0, scorer=qa.DummyScorer(), latent_time=False, relative_match_len=1.0):
            if c is not None and c.resolution.nb_str() not in outs:
                outs.append(c.resolution.nb_str())
        for a, b in itertools.combinations(outs[:4], 2):
            cases.append({"entries": [(text, ts0, a), (text, ts0, b)], "builder": "run_corpus", "depth": 0})
            cases.append({"entries": [(text, ts0, b), (text, ts0, a), (text, ts0, b)], "builder": "run_corpus", "depth": 0})
    twins = [("3 days", ts0, "Duration[]{3 days}"), ("3 days", ts0, "Duration[]{4 days}"), ("3 days", ts0, "Duration[]{3 days}"),
             ("8pm", ts0, "Time[]{X-X-X 08:00 (X/X)}"), ("8pm", ts0, "Time[]{X-X-X 20:00 (X/X)}")]
    cases.append({"entries": twins, "builder": "make_partial_rule_dataset", "depth": 10})
    cases.append({"entries": list(reversed(twins)), "builder": "make_partial_rule_dataset", "depth": 10})
    core.run_stage(ctx, "dataset-builders", cases, obs_entry, "TrainingTrace", sig_keys=("builder",),
                   nontrivial=lambda c: (json.dumps(c["entries"]), c["builder"], c.get("scorer")))
    # duplication monotonicity
    docs_all = [d for n in (1, 2, 3) for d in itertools.product("ab", repeat=n)]
    cases = []
    for n in (2, 3):
        for docs in itertools.combinations_with_replacement(docs_all, n):
            for labels in itertools.product((True, False), repeat=n):
                if all(labels) or not any(labels):
                    continue
                for idx in range(n):
                    if not labels[idx]:
                        continue
                    for k in (1, 2, 3):
                        cases.append({"docs": docs, "labels": labels, "idx": idx, "k": k})
    if ctx.quick:
        cases = rnd.sample(cases, 4000)
    toks = ["r%d" % i for i in range(8)]
    for _ in range(300 if ctx.quick else 5000):
        n = rnd.randint(3, 12)
        docs = [tuple(rnd.choice(toks) for _ in range(rnd.randint(1, 8))) for _ in range(n)]
        labels = [rnd.random() < 0.5 for _ in range(n)]
        if all(labels) or not any(labels):
            continue
        idx = rnd.choice([i for i, l in enumerate(labels) if l])
        cases.append({"docs": docs, "labels": tuple(labels), "idx": idx, "k": rnd.randint(1, 5)})
    core.run_stage(ctx, "duplication-monotone", cases, obs_mono, "TrainingTrace", sig_keys=(),
                   nontrivial=lambda c: json.dumps([c["docs"], c["labels"], c["idx"], c["k"]]))


def replay(ctx, rp):
    core.generic_replay(ctx, rp, STAGES)
