"""Observation / trace batches judged by TLC.

A batch is a list of JSON records (ASCII, ints < 2^31, no nulls).  Each record gets an `id`;
the trace module prints <<"REJECT", id, clause, detail>> for every rejected record and TLC's
distinct-state count must equal the batch size (else the machinery failed: exit 2)."""
import json
import os
import shutil
import tempfile

from . import tlc


class MachineryError(Exception):
    pass


class Verdict:
    def __init__(self):
        self.n = 0
        self.rejects = []      # dicts: id, clause, detail, obs
        self.tlc = None
        self.skipped = 0       # observations outside the frozen model (unknown pattern / rule): not judged


_POD_FILE = None


def base_env(tmp):
    from . import qa
    qa.write_pod_module(tmp)
    return {"QA_TLA_LIBRARY": tmp}


def judge(module, observations, cfg=None, env=None, timeout=3000, workers=2, chunk=20000, parallel=6):
    """Run specs/<module>.tla over the observations (several TLC processes side by side, one chunk
    each). Returns Verdict."""
    from concurrent.futures import ThreadPoolExecutor
    v = Verdict()
    obs = list(observations)
    v.n = len(obs)
    v.generated = v.distinct = 0
    if not obs:
        return v
    tmp = tempfile.mkdtemp(prefix="qa_obs_")
    try:
        e0 = base_env(tmp)
        if env:
            e0.update(env)
        jobs = []
        # observations that mention a pattern or rule the frozen model has no name for (the rule base was extended) cannot be
        # judged by it: they are left out (and counted), the others keep their position as identifier
        from . import qa as _qa
        numbered = [(i + 1, o) for i, o in enumerate(obs) if not _qa.outside_model(o)]
        v.skipped = len(obs) - len(numbered)
        for c0 in range(0, len(numbered), chunk):
            part = numbered[c0:c0 + chunk]
            path = os.path.join(tmp, "obs_%d.ndjson" % c0)
            with open(path, "w") as fd:
                for oid, o in part:
                    o = dict(o)
                    o["id"] = oid
                    fd.write(json.dumps(o, ensure_ascii=True) + "\n")
            jobs.append((c0, len(part), path))

        def one(job):
            c0, n, path = job
            e = dict(e0)
            e["QA_OBS_FILE"] = path
            return job, tlc.run_tlc(module, cfg=cfg, env=e, workers=workers, timeout=timeout, heap="3g")

        with ThreadPoolExecutor(max_workers=parallel) as ex:
            results = list(ex.map(one, jobs))
        for (c0, n, path), r in results:
            v.tlc = r
            if r.timed_out or not r.ok or r.distinct != n:
                raise MachineryError("TLC did not judge the batch for %s: ok=%s distinct=%d n=%d timed_out=%s\n%s"
                                     % (module, r.ok, r.distinct, n, r.timed_out,
                                        "\n".join(r.errors[:3]) or r.stdout[-1500:]))
            v.generated += r.generated
            v.distinct += r.distinct
            for ln in r.prints:
                t = tlc.parse_tuple(ln)
                if t and t[0] == "REJECT":
                    oid = t[1]
                    v.rejects.append({"id": oid, "clause": t[2] if len(t) > 2 else "?",
                                      "detail": t[3] if len(t) > 3 else "", "obs": obs[oid - 1]})
    finally:
        shutil.rmtree(tmp, ignore_errors=True)
    return v
