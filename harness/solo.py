"""Fresh-process reference: python -m harness.solo  (JSON cases on stdin -> JSON digests on stdout)."""
import hashlib
import json
import pickle
import sys
from datetime import datetime
from random import Random


def digest(obj):
    return hashlib.sha1(json.dumps(obj, sort_keys=True, ensure_ascii=True, default=str).encode()).hexdigest()[:16]


def cand_digest(qa, c):
    if c is None or c.resolution is None:
        return digest(["none", getattr(c, "subject", None), getattr(c, "labels", None)])
    r = c.resolution
    return digest([qa.val_json(r), int(r.mstart), int(r.mend), repr(c.score), [str(p) for p in c.production], c.subject, c.labels])


def scorer_for(qa, case):
    kind = case.get("scorer", "shipped")
    if kind == "random":
        return qa.RandomScorer(Random(case.get("seed", 0)))
    return qa.fresh_scorer(kind)


def run_case(qa, case, scorer=None):
    """Returns the list of digests: all candidates of the stream (kind=gen) or the single result."""
    ts = datetime(*case["ts"])
    kw = dict(timeout=0, max_stack_depth=case.get("depth", 10), relative_match_len=case.get("rel", 1.0),
              latent_time=bool(case.get("latent", 1)), scorer=scorer or scorer_for(qa, case))
    if case["kind"] == "gen":
        return [cand_digest(qa, c) for c in qa.CTP.ctparse_gen(case["text"], ts, **kw)]
    return [cand_digest(qa, qa.CTP.ctparse(case["text"], ts, **kw))]


def snapshot(qa):
    import ctparse.rule as rm
    reg = [[n, [list(map(str, p)) for p in pats]] for n, pats in qa.registry_table().items()]
    rx = [[int(k), v.pattern] for k, v in sorted(rm._regex.items())]
    model = hashlib.sha1(pickle.dumps(qa.CTP._DEFAULT_SCORER._model)).hexdigest() if hasattr(qa.CTP._DEFAULT_SCORER, "_model") else "dummy"
    return digest([reg, rx, sorted(rm._regex_str.items()), sorted(rm._str_regex.items()), rm._regex_cnt, model,
                   sorted(qa.T.pod_hours.items())])


def main():
    sys.path.insert(0, "/verif")
    from harness import qa
    cases = json.load(sys.stdin)
    out = [run_case(qa, c) for c in cases]
    json.dump({"results": out, "snap": snapshot(qa)}, sys.stdout)


if __name__ == "__main__":
    main()
