"""Shared engine-level stages: synthetic grammars for the real engine (C13, C14, C15) and the
observation of real-grammar runs (C15, C02)."""
import random

from . import core, qa, syn, searchtrace
from .obs import MachineryError

GRAMMARS = [
    syn.Grammar("I1", [("t1", "qa"), ("t2", "q(a|x)")],
                [("r1", ["t1"], "A"), ("r2", ["t2"], "A"), ("r3", ["A"], "B"), ("rF", ["A"], "FAIL")]),
    syn.Grammar("I2", [("ta", "qa"), ("tx", "q(a|x)"), ("tb", "qb")],
                [("ra", ["ta"], "A"), ("rx", ["tx"], "A"), ("rb", ["tb"], "B"), ("rab", ["A", "B"], "C"), ("rabs", ["ta", "B"], "B")]),
    syn.Grammar("I3", [("ta", "qa"), ("tl", "qa qb"), ("tb", "qb")],
                [("ra", ["ta"], "A"), ("rl", ["tl"], "L"), ("rb", ["tb"], "B"), ("rl2", ["L"], "A")]),
    syn.Grammar("I5", [("ta", "qa"), ("tx", "q(a|x)"), ("ty", "q(a|y)"), ("tb", "qb"), ("tj", "-")],
                [("ra", ["ta"], "A"), ("rx", ["tx"], "X"), ("ry", ["ty"], "A"), ("rb", ["tb"], "B"),
                 ("rxa", ["X"], "A"), ("rjoin", ["A", "tj", "B"], "I"), ("rab", ["A", "B"], "C"), ("rabsorb", ["tj", "B"], "B"),
                 ("rdecl", ["X", "B"], "FAIL"), ("rii", ["I"], "J")]),
]
TEXTS = {"I1": ["qa", "qa qa"], "I2": ["qa qb", "qa", "qb qa qb"], "I3": ["qa qb", "qa", "zz qa qb"],
         "I5": ["qa qb", "qa - qb", "qa-qb qa", "qa qa", "- qa - qb", "- qa-qb", "qb - qa - qb"]}


def engine_groups(ctx, depths=(0, 1, 2), seeds=12, scores=(0, 1, 2), deadlines=False, rels=((1, 1),)):
    """Run the real engine on the synthetic grammars and group the traces for SearchTrace."""
    groups = []
    rnd = random.Random(ctx.seed)
    for gr in GRAMMARS:
        with syn.installed(gr) as g:
            for text in TEXTS[gr.name]:
                for depth in depths:
                    for rel in rels:
                        grp = None
                        base_reads = None
                        for k in range(seeds):
                            sseed = rnd.randrange(1 << 30)
                            ev, init, ys, reads = syn.run_engine(g, text, random.Random(sseed), scores, depth=depth,
                                                                 rel=rel[0] / rel[1])
                            if grp is None:
                                grp = {"gr": gr, "init": init, "depth": depth, "can_expire": bool(deadlines), "rel": rel,
                                       "traces": [], "yields": [], "meta": []}
                            grp["traces"].append(ev)
                            grp["yields"].append(ys)
                            grp["meta"].append({"grammar": gr.name, "text": text, "depth": depth, "scorer_seed": sseed,
                                                "deadline": None, "rel": rel})
                            if deadlines and k < 3:
                                # every expiry point of this run: the deadline between any two clock reads
                                # (clock reads are counted on a run that can expire: with timeout=0 the deadline checks read no clock)
                                reads_t = syn.run_engine(g, text, random.Random(sseed), scores, depth=depth, deadline=10 ** 9,
                                                         rel=rel[0] / rel[1])[3]
                                for T in range(1, reads_t + 1):
                                    ev2, init2, ys2, _ = syn.run_engine(g, text, random.Random(sseed), scores, depth=depth,
                                                                        deadline=T, rel=rel[0] / rel[1])
                                    if init2 != init[:len(init2)]:
                                        raise MachineryError("candidate sequences differ between runs")
                                    grp2 = {"gr": gr, "init": init, "depth": depth, "can_expire": True, "rel": rel,
                                            "traces": [ev2], "yields": [ys2],
                                            "meta": [{"grammar": gr.name, "text": text, "depth": depth, "scorer_seed": sseed,
                                                      "deadline": T, "rel": rel, "full": ys}]}
                                    # timed runs share the group's constants: append to a per-(text,depth) timed group
                                    key = ("timed", gr.name, text, depth, rel)
                                    found = [x for x in groups if x.get("key") == key]
                                    if found:
                                        found[0]["traces"].append(ev2)
                                        found[0]["yields"].append(ys2)
                                        found[0]["meta"].append(grp2["meta"][0])
                                    else:
                                        grp2["key"] = key
                                        groups.append(grp2)
                        if grp and grp["init"]:
                            groups.append(grp)
    return groups


def judge_engine_groups(ctx, groups, prop_stage="engine-traces"):
    """SearchTrace verdicts: OUTBAD (verdict level) -> violation; trace not accepted by SearchImpl but
    output fine -> drift note."""
    res = searchtrace.judge_groups(groups)
    ntr = 0
    drift = 0
    for g, (acc, r) in zip(groups, res):
        ctx.states += r.distinct
        ctx.transitions += r.generated
        ntr += len(g["traces"])
        bad = {}
        for tid, clause in r.outbad:
            bad.setdefault(tid, []).append(clause)
        for tid in range(1, len(g["traces"]) + 1):
            meta = g["meta"][tid - 1]
            if tid in bad:
                ctx.violation({"stage": prop_stage, "clause": bad[tid][0], "grammar": meta["grammar"]},
                              "real engine on synthetic grammar %s, text %r: %s" % (meta["grammar"], meta["text"], ",".join(bad[tid])),
                              {"stage": prop_stage, **{k: v for k, v in meta.items() if k != "full"}})
            elif r.violated:
                ctx.violation({"stage": prop_stage, "clause": r.violated[0], "grammar": meta["grammar"]},
                              "invariant %s violated along a validated behaviour" % r.violated[0],
                              {"stage": prop_stage, **{k: v for k, v in meta.items() if k != "full"}})
                break
            elif tid not in acc:
                drift += 1
                ctx.note("DRIFT: run of the real engine not accepted by SearchImpl (output satisfies the properties): %s"
                         % ({k: v for k, v in meta.items() if k != "full"},))
        for m in g["meta"]:
            ctx.nontrivial.add((prop_stage, m["grammar"], m["text"], m["depth"], m["scorer_seed"], m["deadline"]))
    ctx.traces += ntr
    ctx.evaluations += ntr
    ctx.stage_counts[prop_stage] = {"groups": len(groups), "traces": ntr, "drift": drift}
    if groups:
        g = groups[0]
        ctx.sample({"stage": prop_stage, "grammar": g["gr"].name, "meta": {k: v for k, v in g["meta"][0].items() if k != "full"},
                    "trace_head": g["traces"][0][:12], "yielded": g["yields"][0]})
    return res


# ---- real grammar ------------------------------------------------------------------------------------
def observe_text(case):
    """One run of ctparse_gen on the real grammar; returns a DeriveText observation (+ rows)."""
    from datetime import datetime
    text, depth = case["text"], case["depth"]
    ts = datetime(*case["ts"])
    sc = qa.WrapScorer(qa.fresh_scorer(case.get("scorer", "dummy"), case.get("seed", 0)))
    rec = qa.Recorder()
    cands, objs = [], []
    with qa.recording(rec):
        for c in qa.CTP.ctparse_gen(text, ts, timeout=0, max_stack_depth=depth, scorer=sc, latent_time=False,
                                    relative_match_len=case.get("rel", 1.0)):
            if c is None:
                continue
            r = c.resolution
            cands.append({"val": qa.val_json(r), "s": int(r.mstart), "e": int(r.mend),
                          "ids": [qa.mid(int(x)) for x in c.production if isinstance(x, int)],
                          "rules": [x for x in c.production if not isinstance(x, int)]})
            objs.append(r)
    for c, r in zip(cands, objs):
        c["val1"] = qa.val_json(r)
        c["s1"] = int(r.mstart)
        c["e1"] = int(r.mend)
    pps = sc.init_pps
    best = max((p.max_covered_chars for p in pps), default=0)
    init = [[qa.val_json(x) for x in p.prod] for p in pps if p.max_covered_chars >= best * case.get("rel", 1.0)]
    ntok = max((len(i) for i in init), default=0)
    small = 1 if (ntok <= 4 and len(init) <= 12 and case.get("rel", 1.0) == 1.0) else 0
    rows = [r for r in rec.rows.values() if qa.row_in_model(r)]
    return {"ts": qa.ts_json(ts), "init": init, "cands": cands, "depth": depth, "small": small, "_rows": rows,
            "_nvals": len(cands)}


def text_size(text):
    """(number of pattern matches, number of candidate sequences) - to bound exhaustive runs."""
    txt = qa.CTP._preprocess_string(text)
    ms = qa.CTP._match_regex(txt, qa.REGEX)
    if len(ms) > 14:
        return len(ms), 10 ** 6
    seqs = qa.CTP._regex_stack(txt, ms)
    return len(ms), len(seqs)
