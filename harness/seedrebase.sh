#!/bin/bash
# harness/seedrebase.sh <seed name> - re-base a kept seed whose patch no longer applies to /repo's HEAD (context changed by a fix):
# three-way apply in a scratch worktree, then confirm again with seedkeep.sh (suite + demo with / without) and replace the patch.
N="$1"; D=/verif/seeded/$N
WT=/tmp/wt/rebase_$N
git -C /repo worktree add -q --detach "$WT" HEAD || exit 2
cd "$WT"
if ! git apply --3way "$D/patch.diff" 2>/tmp/rebase_$N.err; then echo "CONFLICT $N: $(tail -1 /tmp/rebase_$N.err)"; git -C /repo worktree remove --force "$WT"; exit 1; fi
git reset -q
mkdir -p _seed; cp "$D/demo.py" _seed/; cp "$D/notes.md" _seed/ 2>/dev/null
PROP=$(python3 -c "import json; print(json.load(open('$D/meta.json'))['property'])")
cp "$D/meta.json" /tmp/rebase_$N.meta
out=$(/verif/harness/seedkeep.sh "$WT" "$N" "$PROP" 2>&1 | tail -2 | tr '\n' ' ')
# keep the recorded history of the seed (seedkeep writes a fresh meta.json)
python3 - "$D" /tmp/rebase_$N.meta <<'PY'
import json, sys
d, old = sys.argv[1:3]
new = json.load(open(d + "/meta.json")); o = json.load(open(old))
for k in ("detected_by", "history", "what_was_run"):
    if k in o: new[k] = o[k]
new["rebased"] = "patch re-based onto the repaired tree (three-way apply) and confirmed again"
json.dump(new, open(d + "/meta.json", "w"), indent=1, ensure_ascii=False)
PY
echo "$N: $out"
git -C /repo worktree remove --force "$WT"
