"""Concrete syntax of the specification grammar: renders abstract expressions (the records of
specs/Denote.tla) into surface text through the FROZEN lexicon (specs/lexicon.json).
The abstract expression goes to TLC, the text goes to the real parser."""
import json
import os
import random

X = -1
_HERE = os.path.dirname(os.path.abspath(__file__))
with open(os.path.join(os.path.dirname(_HERE), "specs", "lexicon.json"), encoding="utf8") as _fd:
    LEX = json.load(_fd)


def day(dk, n1=X, n2=X, n3=X, s="X"):
    return {"dk": dk, "n1": n1, "n2": n2, "n3": n3, "s": s}


NODAY = day("none")
NOCLOCK = {"ck": "none", "h": X, "mi": X}


def clock(h, mi):
    return {"ck": "hm", "h": h, "mi": mi}


def ordinal_suffix(d):
    if d % 10 == 1 and d != 11:
        return "st"
    if d % 10 == 2 and d != 12:
        return "nd"
    if d % 10 == 3 and d != 13:
        return "rd"
    return "th"


MONTH_EN = ["january", "february", "march", "april", "may", "june", "july", "august", "september",
            "october", "november", "december"]
MONTH_DE = ["januar", "februar", "märz", "april", "mai", "juni", "juli", "august", "september",
            "oktober", "november", "dezember"]


# ---- relative days (C03) ----------------------------------------------------------------------
def rel_forms():
    """(label, text, Day) for every surface form of every relative-day expression."""
    out = []
    for key, k in (("today", 0), ("tomorrow", 1), ("after_tomorrow", 2), ("yesterday", -1),
                   ("before_yesterday", -2)):
        for f in LEX[key]:
            out.append(("rel:" + key, f, day("rel", k)))
    for f in LEX["now"]:
        out.append(("now", f, day("now")))
    for f in LEX["eom"]:
        out.append(("eom", f, day("eom")))
    for f in LEX["eoy"]:
        out.append(("eoy", f, day("eoy")))
    return out


def dow_forms(w, kinds=("dow", "thisdow", "nextdow")):
    out = []
    names = LEX["dow"][str(w)]
    if "dow" in kinds:
        for nm in names:
            out.append(("dow", nm, day("dow", w)))
    if "thisdow" in kinds:
        for th in LEX["this"]:
            for nm in names:
                out.append(("thisdow:" + th, th + " " + nm, day("thisdow", w)))
    if "nextdow" in kinds:
        for nx in LEX["next"]:
            for nm in names:
                out.append(("nextdow:" + nx, nx + " " + nm, day("nextdow", w)))
        for nw in LEX["next_week"]:
            for nm in names:
                out.append(("downextweek:" + nw, nm + " " + nw, day("nextdow", w)))
    return out


def dom_forms(d):
    out = [("dom:d.", "%d." % d, day("dom", d)),
           ("dom:dth", "%d%s" % (d, ordinal_suffix(d)), day("dom", d)),
           ("dom:the dth", "the %d%s" % (d, ordinal_suffix(d)), day("dom", d)),
           # the German ordinal forms the day pattern lists (s?ten): "5ten", "1sten", "am 20sten" (once kept out of the grammar because
           # "ten" was read as ten o'clock - that was a defect of the library, repaired in f5929e0)
           ("dom:dten", "%dten" % d, day("dom", d)),
           ("dom:dsten", "%dsten" % d, day("dom", d)),
           ("dom:am dten", "am %d%s" % (d, "sten" if d >= 20 else "ten"), day("dom", d)),
           ("dom:dter", "%dter" % d, day("dom", d)),
           ("dom:am d.", "am %d." % d, day("dom", d))]
    return out


def month_names(m, all_forms=False):
    forms = LEX["month"][str(m)]
    if all_forms:
        return forms
    pick = [MONTH_EN[m - 1], MONTH_DE[m - 1]]
    ab = [f for f in forms if len(f) == 3]
    return [p for p in dict.fromkeys(pick + ab[:1]) if p in forms]


def doy_forms(d, m, all_months=False):
    out = [("doy:d.m.", "%d.%d." % (d, m), day("doy", d, m)),
           ("doy:dd.mm.", "%02d.%02d." % (d, m), day("doy", d, m))]
    for mn in month_names(m, all_months):
        out.append(("doy:d. Month", "%d. %s" % (d, mn), day("doy", d, m)))
        out.append(("doy:dth Month", "%d%s %s" % (d, ordinal_suffix(d), mn), day("doy", d, m)))
        out.append(("doy:Month d", "%s %d" % (mn, d), day("doy", d, m)))
        out.append(("doy:Month dth", "%s %d%s" % (mn, d, ordinal_suffix(d)), day("doy", d, m)))
        out.append(("doy:dth of Month", "%d%s of %s" % (d, ordinal_suffix(d), mn), day("doy", d, m)))
    return out


def date_forms(d, m, y, all_months=False, numeric=True, named=True):
    D = day("date", d, m, y)
    out = []
    # the written-year vocabulary of the code (ctparse/rule.py _regex_year) is 1900-2029; other years are outside the model
    assert 1900 <= y <= 2029, "written year outside the vocabulary of the rule base"
    if numeric:
        out += [("date:d.m.yyyy", "%d.%d.%d" % (d, m, y), D),
                ("date:dd.mm.yyyy", "%02d.%02d.%d" % (d, m, y), D),
                ("date:d/m/yyyy", "%d/%d/%d" % (d, m, y), D),
                ("date:d-m-yyyy", "%d-%d-%d" % (d, m, y), D)]
        if 2000 <= y <= 2029:
            out.append(("date:d.m.yy", "%d.%d.%02d" % (d, m, y - 2000), D))
    if named:
        for mn in month_names(m, all_months):
            out.append(("date:d Month yyyy", "%d %s %d" % (d, mn, y), D))
            out.append(("date:d. Month yyyy", "%d. %s %d" % (d, mn, y), D))
            out.append(("date:dth Month yyyy", "%d%s %s %d" % (d, ordinal_suffix(d), mn, y), D))
            out.append(("date:Month d yyyy", "%s %d %d" % (mn, d, y), D))
            out.append(("date:dth of Month yyyy", "%d%s of %s %d" % (d, ordinal_suffix(d), mn, y), D))
    return out


def military_year_like(y):
    """4-digit years that read as a 24h time hh:mm with mm a multiple of 5 (C05's exclusion)."""
    hh, mm = divmod(y, 100)
    return hh <= 23 and mm <= 59 and mm % 5 == 0


# ---- clocks (C06) --------------------------------------------------------------------------------
def clock_forms(h, mi, groups=None):
    """(label, text, Clock) for every notation applicable to the minute h:mi (24h)."""
    C = clock(h, mi)
    out = []
    out.append(("clock:H:MM", "%d:%02d" % (h, mi), C))
    out.append(("clock:HH:MM", "%02d:%02d" % (h, mi), C))
    if mi > 12 or h == 0:
        # guard DotTimeReadsAsDate: "7.05" is also the 7th of May (d.m); the notation H.MM is part of
        # the grammar only where it cannot be a day.month
        out.append(("clock:H.MM", "%d.%02d" % (h, mi), C))
    out.append(("clock:HhMM", "%dh%02d" % (h, mi), C))
    out.append(("clock:HuhrMM", "%duhr%02d" % (h, mi), C))
    out.append(("clock:H:MM uhr", "%d:%02d uhr" % (h, mi), C))
    h12 = 12 if h % 12 == 0 else h % 12
    ap = "am" if h < 12 else "pm"
    for sfx in (ap, " " + ap, ap[0] + ".m.", " " + ap[0] + ".m.", ap.upper()):
        out.append(("clock:h:mm ampm", "%d:%02d%s" % (h12, mi, sfx), C))
    out.append(("clock:HHMM uhr", "%02d%02d uhr" % (h, mi), C))
    out.append(("clock:HHMMh", "%02d%02dh" % (h, mi), C))
    if mi % 5 == 0:
        out.append(("clock:HHMM", "%02d%02d" % (h, mi), C))
    if mi == 0:
        for f in ("%d uhr", "%duhr", "%dh", "%d h", "%d o'clock", "%d oclock"):
            out.append(("clock:H uhr", f % h, C))
        for sfx in (ap, " " + ap, ap[0] + ".m.", " " + ap[0] + ".m.", ap.upper(), " " + ap.upper()):
            out.append(("clock:h ampm", "%d%s" % (h12, sfx), C))
        if 1 <= h <= 12:
            for nm in LEX["named_hour"][str(h)]:
                for sfx in LEX["named_hour_suffix"]:
                    out.append(("clock:named hour", nm + sfx, C))
        if h == 0:
            for f in LEX["midnight"]:
                out.append(("clock:midnight", f, C))
        # <hour> in the <part of day>
        if h >= 13:
            for ph in ("in the afternoon", "in the evening", "nachmittags", "abends", "at night", "nachts"):
                out.append(("clock:h in the POD", "%d %s" % (h - 12, ph), C))
            for f in ("%d uhr abends", "%d uhr nachmittags", "%d:00 in the afternoon", "at %d in the afternoon",
                      "%d o'clock in the evening", "um %d uhr abends"):
                out.append(("clock:h uhr POD", f % (h - 12), C))
        if h == 12:
            out.append(("clock:h in the POD", "12 in the afternoon", C))
        if h == 0:
            # hour 0 is midnight next to any part of day
            for f in ("0 uhr nachts", "0 uhr abends", "0:00 at night", "00:00 in the evening", "nachts um 0 uhr"):
                out.append(("clock:h uhr POD", f, C))
        if 1 <= h <= 11:
            for ph in ("in the morning", "morgens", "vormittags", "am vormittag"):
                out.append(("clock:h in the POD", "%d %s" % (h, ph), C))
            # ("N uhr morgens" is not used: "morgen" inside it is also "tomorrow", a homograph of the lexicon)
            for f in ("%d uhr vormittags", "%d:00 in the morning", "at %d in the morning", "%d o'clock in the morning"):
                out.append(("clock:h uhr POD", f % h, C))
    # the small hours "at night" and hour 1 "at noon" (recorded findings of C06: the part-of-day shift of the library is by name only)
    if mi == 0 and 1 <= h <= 5:
        for f in ("%d uhr nachts", "%d at night", "nachts um %d uhr"):
            out.append(("clock:small hour at night", f % h, C))
    if mi == 0 and h == 0:
        for f in ("12 uhr nachts", "12 at night"):
            out.append(("clock:small hour at night", f, C))
    if mi in (0, 30) and h == 13:
        for f in (("1 uhr mittags", "mittags um 1 uhr") if mi == 0 else ("1:30 mittags",)):
            out.append(("clock:hour one at noon", f, C))
    if h == 12 and mi == 30:
        for f in ("halb eins nachmittags", "nachmittags um halb eins", "halb 1 nachmittags"):
            out.append(("clock:spoken + POD", f, C))
    if h == 12 and mi == 45:
        for f in ("quarter to one in the afternoon", "viertel vor 1 nachmittags"):
            out.append(("clock:spoken + POD", f, C))
    if h == 0 and mi != 0:
        for f in ("0:%02d at night", "00:%02d abends", "0:%02d uhr nachts"):
            out.append(("clock:h:mm POD", f % mi, C))
    hn = (h + 1) % 24

    def hour_words(hh):
        ws = ["%d" % hh]
        if 1 <= hh <= 12:
            ws += [LEX["named_hour"][str(hh)][0], LEX["named_hour"][str(hh)][-1]]
        return ws
    if mi == 15:
        for q in LEX["quarter_after"]:
            for hw in hour_words(h):
                out.append(("clock:quarter past", q + " " + hw, C))
    if mi == 45:
        for q in LEX["quarter_before"]:
            for hw in hour_words(hn):
                out.append(("clock:quarter to", q + " " + hw, C))
    if mi == 30:
        for q in LEX["half_after"]:
            for hw in hour_words(h):
                out.append(("clock:half past", q + " " + hw, C))
        for q in LEX["half_before"]:
            for hw in hour_words(hn):
                out.append(("clock:half before", q + " " + hw, C))
    if groups:
        out = [o for o in out if o[0] in groups]
    return out


# ---- ranges (C07) ----------------------------------------------------------------------------------
JOINERS_CLOCK = ["-", " - ", " to ", " bis ", " until ", " til ", " and ", " und "]


def clock_text(h, mi, style=0):
    if style == 0:
        return "%d:%02d" % (h, mi)
    if style == 1:
        return ("%d" % h) if mi == 0 else "%d:%02d" % (h, mi)
    if style == 2:
        return "%02d:%02d" % (h, mi)
    return "%d.%02d" % (h, mi)


def range_texts(a_txt, b_txt):
    """(label, text) for 'A <joiner> B' with every joiner and the from/between frames."""
    out = []
    for j in LEX["joiner"]:
        if j in ("-", "/"):
            out.append(("join:" + j, a_txt + j + b_txt))
            out.append(("join: " + j + " ", a_txt + " " + j + " " + b_txt))
        else:
            out.append(("join:" + j, a_txt + " " + j + " " + b_txt))
    out.append(("join:from..to", "from " + a_txt + " to " + b_txt))
    out.append(("join:between..and", "between " + a_txt + " and " + b_txt))
    out.append(("join:von..bis", "von " + a_txt + " bis " + b_txt))
    out.append(("join:zwischen..und", "zwischen " + a_txt + " und " + b_txt))
    return out


# ---- durations (C08) -------------------------------------------------------------------------------
def duration_forms(n, u, words=True, digits=True):
    out = []
    D = {"n": n, "u": u}
    homograph = set(LEX["named_hour_suffix"]) | {f for fs in LEX["pod"].values() for f in fs}
    for uw in LEX["unit"][u]:
        if uw in homograph:
            continue     # "8 h" is also 8 o'clock, "2 night" is also 2 at night: homographs of the lexicon
        if digits:
            out.append(("dur:digits", "%d %s" % (n, uw), D))
            out.append(("dur:digits-nospace", "%d%s" % (n, uw), D))
        if words and str(n) in LEX["number_word"]:
            for nw in LEX["number_word"][str(n)]:
                out.append(("dur:word:" + nw, "%s %s" % (nw, uw), D))
    return out


# ---- inert words -------------------------------------------------------------------------------------
INERT_CANDIDATES = ["xyzzy", "plugh", "qux", "zork", "blorb", "wibble", "grue", "frotz", "kwyjibo", "lorem",
                    "ipsum", "gizmo", "quark", "zebra", "pizza", "kiwi", "yoga", "jazz", "lunch", "call",
                    "buy", "milk", "review", "budget", "gym", "pickup", "kids", "flight", "zahnarzt", "kino",
                    # inert words that are not made of letters only ('#' without being a hashtag, digits inside, punctuation)
                    "C#", "F#", "#", "R2D2x", "w/o", "AT&T", "e=mc", "50%x", "@home", "foo_bar",
                    # words whose head or tail is a piece of a pattern (st, a, very, not, right, pm ...): inert alone, and a pattern
                    # must not reach into them from the expression next to them ("quarter" is NOT such a word: "quarter after 17:30" is
                    # an expression of its own - it was in this list for a while and raised a false alarm in the thorough tier)
                    "street", "staff", "thanks", "terrace", "pizza", "oma", "every", "knot", "copyright", "pmx", "amx",
                    "nachbar", "vorname", "abend2", "spam", "diagram",
                    # ... followed by a non-ASCII letter (ASCII-only look-arounds would let the pattern in)
                    "Hütte", "Männer", "Möbel", "Hände", "hübsch", "Mühle", "Tänzer", "näher", "übung", "ärger"]


# ---- token soups: random sequences of lexemes of every category (renders Derive.tla's alphabet) ------
def soup_lexemes():
    """A flat list of surface lexemes covering every pattern of the rule base."""
    out = []
    for key in ("today", "now", "tomorrow", "after_tomorrow", "yesterday", "before_yesterday", "eom", "eoy", "this", "next",
                "next_week", "absorb", "from", "of", "before", "not_before", "after", "not_after", "joiner", "quarter_before",
                "quarter_after", "half_before", "half_after", "midnight", "for", "half"):
        out += LEX[key][:4]
    for d in LEX["dow"].values():
        out += d[:2]
    for d in LEX["month"].values():
        out += d[:2]
    for d in LEX["named_hour"].values():
        out += d[:1]
    for d in LEX["pod_modifier"].values():
        out += d[:2]
    for d in LEX["pod"].values():
        out += d[:2]
    for n in ("1", "2", "12", "21", "31"):
        out += LEX["number_word"][n][:2]
    for u in LEX["unit"].values():
        out += u[:2]
    out += ["1.", "5.", "28.", "29.", "30.", "31.", "1st", "2nd", "3rd", "29th", "31st", "2019", "2020", "19", "99", "31.04.", "29.2.",
            "30.1.", "31.4.2020", "29.2.2019", "29.02.20", "1.1.2018", "29.2.1900", "1900", "29.", "feb", "29. feb", "2/30", "7-4", "8", "8:30pm", "12am", "12:00 pm", "0:00", "23:59",
            "9", "5", "23:30", "3:35", "13:00am", "2030", "2018", "0800 uhr", "1215", "17 uhr", "3h", "8 o'clock", "0 days", "3 days",
            "2 weeks", "1 month", "48 hours", "90 minutes", "1 night", "99999999999 days", "100000 months", "-", "/", "#tag", "#a-b_c",
            "xyzzy", ",", ";", "(", ")", "–", " ", "8 8", "31.12.9999", "1.1.1", "00", "0", "000", "24:00", "24", "60", "31/12",
            "12/31", "feb 30", "april 31"]
    seen, res = set(), []
    for x in out:
        if x not in seen:
            seen.add(x)
            res.append(x)
    return res


def soups(rnd, n, kmin=1, kmax=5, lexemes=None):
    lx = lexemes or soup_lexemes()
    out = []
    for _ in range(n):
        k = rnd.randint(kmin, kmax)
        out.append(" ".join(rnd.choice(lx) for _ in range(k)))
    return out
