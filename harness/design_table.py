"""Refresh the last column (quick-tier figures) of the per-property table in DESIGN.md section 4 from the evidence files."""
import json, os, re
V = os.path.dirname(os.path.dirname(os.path.abspath(__file__)))
p = os.path.join(V, "DESIGN.md")
s = open(p, encoding="utf8").read().split("\n")
i0 = next(i for i, l in enumerate(s) if l.startswith("## 4."))
i1 = next(i for i, l in enumerate(s) if l.startswith("## 5."))
for i in range(i0, i1):
    m = re.match(r"^\| (C\d\d) \|", s[i])
    if not m:
        continue
    ev = os.path.join(V, "evidence", m.group(1) + ".json")
    if not os.path.exists(ev):
        continue
    e = json.load(open(ev))
    if e.get("tier") != "quick":
        continue
    c = e["coverage"]
    cells = s[i].rstrip().rstrip("|").split("|")
    cells[-1] = " %s evaluations, %s observations judged, %s TLC states / %d s " % (
        format(c["evaluations"], ",").replace(",", " "), format(c["traces_validated_against_impl"], ",").replace(",", " "),
        format(c["states"], ",").replace(",", " "), round(e["wall_s"]))
    s[i] = "|".join(cells) + "|"
open(p, "w", encoding="utf8").write("\n".join(s))
print("refreshed")
