"""./check setup: offline build step - parse every TLA+ module with SANY (with the generated
PodData module on the library path) and import the harness against /repo's working tree."""
import glob
import os
import shutil
import tempfile

from . import tlc


def run():
    from . import qa
    tmp = tempfile.mkdtemp(prefix="qa_setup_")
    bad = 0
    try:
        qa.write_pod_module(tmp)
        mods = sorted(os.path.basename(p)[:-4] for p in glob.glob(os.path.join(tlc.SPECS, "*.tla")))
        for m in mods:
            ok, out = tlc.sany(m, libdir=tmp)
            if not ok:
                bad += 1
                print("SANY FAILED", m)
                print(out[-1500:])
        print("setup: %d TLA+ modules parsed, %d failed; %d rules / %d patterns in the registry of /repo"
              % (len(mods), bad, len(qa.RULES), len(qa.REGEX)))
    finally:
        shutil.rmtree(tmp, ignore_errors=True)
    return 1 if bad else 0
