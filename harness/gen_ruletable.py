"""One-off generator of specs/RuleTable.tla (the rule patterns as data) from the PINNED tree.
The output is checked in and frozen: it is part of the specification; C19/C15 compare the registry
of the tree under test against it.  Not run by any check."""
import sys
sys.path.insert(0, "/verif")
from harness import qa

tab = qa.registry_table()
lines = []
lines.append("------------------------------ MODULE RuleTable ------------------------------")
lines.append("(* Rule patterns of the pinned rule base as data (generated once by harness/gen_ruletable.py,")
lines.append("   then frozen).  A pattern element is [t |-> \"R\", id, n] (pattern match with that id),")
lines.append("   [t |-> \"P\", n] (predicate of Values.tla) or [t |-> \"D\", n] (dimension). *)")
lines.append("R(i) == [t |-> \"R\", id |-> i, n |-> \"\"]")
lines.append("P(s) == [t |-> \"P\", id |-> 0, n |-> s]")
lines.append("D(s) == [t |-> \"D\", id |-> 0, n |-> s]")
lines.append("RulePat == [")
items = []
for name, pats in tab.items():
    els = []
    for kind, what in pats:
        if kind == "R":
            els.append("R(%d)" % what)
        elif kind == "P":
            els.append('P("%s")' % what)
        else:
            els.append('D("%s")' % what)
    items.append("  %s |-> <<%s>>" % (name, ", ".join(els)))
lines.append(",\n".join(items))
lines.append("]")
lines.append("RuleOrder == <<%s>>" % ", ".join('"%s"' % n for n in tab))
ids = sorted(qa.REGEX_STR)
lines.append("PatternIds == {%s}" % ", ".join(str(i) for i in ids))
lines.append("=============================================================================")
open("/verif/specs/RuleTable.tla", "w").write("\n".join(lines) + "\n")
print("ok", len(tab), len(ids))
