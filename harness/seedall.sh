#!/bin/bash
# harness/seedall.sh - regression over all kept seeds: each must be detected by (one of) the check(s) named first in its meta.json
cd /verif
for d in seeded/*/; do
  n=$(basename $d)
  ids=$(python3 -c "
import json,re,sys
m=json.load(open('$d/meta.json'))
print(' '.join(sorted({re.match(r'(C\d\d)', x).group(1) for x in m['detected_by']})))")
  out=$(harness/seedrun.sh /verif/${d%/}/patch.diff $ids 2>&1)
  if echo "$out" | grep -q "^DETECTED"; then echo "ok      $n  ($(echo "$out" | grep -c '^DETECTED') of $(echo $ids | wc -w) checks)"; else echo "MISSED  $n: $out" | cut -c1-300; fi
done
