#!/bin/bash
# harness/seedall.sh [workers] - regression over all kept seeds: each must be detected by (one of) the check(s) named in its
# meta.json.  Runs in private scratch worktrees of /repo (QUICKADD_REPO), several side by side; /repo itself is not touched.
# The worktrees live under ${SEED_SCRATCH:-/tmp/qa_seedwt} and are removed at the end.
W="${1:-4}"
S="${SEED_SCRATCH:-/tmp/qa_seedwt}"
cd /verif
mkdir -p "$S"
# SEED_FILTER=<extended regex> restricts the run to matching seed names (e.g. '^seeded/C(06|07|09)-')
ls -d seeded/C*/ | sed 's|/$||' | grep -E "${SEED_FILTER:-.}" > "$S/list"
one() {
  slot="$1"; d="$2"; n=$(basename "$d")
  wt="$S/wt$slot"
  git -C "$wt" checkout -q -- . 
  ids=$(python3 -c "
import json,re
m=json.load(open('$d/meta.json'))
print('RETIRED' if m.get('retired') else ' '.join(sorted({re.match(r'(C\d\d)', x).group(1) for x in m['detected_by']})))")
  if [ "$ids" = "RETIRED" ]; then echo "retired $n (duplicate of a re-based seed)"; return; fi
  if ! git -C "$wt" apply "/verif/$d/patch.diff" 2>/dev/null; then echo "NOAPPLY $n"; return; fi
  det=0; tot=0; msg=""
  for id in $ids; do
    tot=$((tot+1))
    out=$(QUICKADD_OUT="$S/out$slot" QUICKADD_REPO="$wt" VERIF_SEED="${VERIF_SEED:-0}" ./check "$id" --tier quick 2>&1); rc=$?
    if [ $rc -eq 1 ] && echo "$out" | grep -q "^VIOLATION"; then det=$((det+1)); else msg="$msg [$id rc=$rc]"; fi
  done
  git -C "$wt" checkout -q -- .
  if [ $det -gt 0 ]; then echo "ok      $n  ($det of $tot checks)$msg"; else echo "MISSED  $n $msg"; fi
}
export -f one; export S
for k in $(seq 1 "$W"); do
  [ -d "$S/wt$k" ] || git -C /repo worktree add -q --detach "$S/wt$k" HEAD
  git -C "$S/wt$k" checkout -q --detach "$(git -C /repo rev-parse HEAD)"
done
# slot = (line number mod W) + 1; each slot works through its lines sequentially
for k in $(seq 1 "$W"); do
  ( awk -v k="$k" -v w="$W" 'NR % w == k % w' "$S/list" | while read d; do one "$k" "$d"; done ) &
done
wait
for k in $(seq 1 "$W"); do git -C /repo worktree remove --force "$S/wt$k"; done
git -C /repo worktree prune
