"""Binding layer between the real quickadd (ctparse) code in /repo and the TLA+ value
domain of specs/Values.tla: projections of artifacts / pattern matches / timestamps to the
JSON records TLC reads, the part-of-day table export, and the in-process recorder that
observes the engine through seams the library already exposes (no source hooks).

Everything here is installed only when QUICKADD_VERIF=1 (set by ./check).
"""
import json
import os
import sys
import tempfile
from contextlib import contextmanager
from datetime import datetime

REPO = os.environ.get("QUICKADD_REPO", "/repo")
if REPO not in sys.path:
    sys.path.insert(0, REPO)

import logging  # noqa: E402
import warnings  # noqa: E402

logging.disable(logging.CRITICAL)      # the library logs warnings (e.g. "No model found") that only add noise here

warnings.filterwarnings("ignore", category=SyntaxWarning)

import ctparse  # noqa: E402,F401
from ctparse import rule as _rule_mod  # noqa: E402
from ctparse import types as T  # noqa: E402
from ctparse.partial_parse import PartialParse  # noqa: E402
from ctparse.scorer import DummyScorer, RandomScorer, Scorer  # noqa: E402

CTP = sys.modules["ctparse.ctparse"]       # `import ctparse.ctparse` is shadowed by the function
RULES = _rule_mod.rules
REGEX = _rule_mod._regex
REGEX_STR = _rule_mod._regex_str

X = -1

# frozen reading orders (the specification's, not re-read from the tree)
DOWS = ["mon", "tue", "wed", "thu", "fri", "sat", "sun"]
MONTHS = ["january", "february", "march", "april", "may", "june", "july", "august",
          "september", "october", "november", "december"]
PODS = ["first", "last", "earlymorning", "lateevening", "morning", "forenoon", "afternoon",
        "noon", "evening", "night"]
UNITS = ["nights", "days", "minutes", "hours", "weeks", "months"]


def ts_json(ts):
    return {"y": ts.year, "m": ts.month, "d": ts.day, "H": ts.hour, "M": ts.minute}


def _n(v):
    return X if v is None else int(v)


def time_json(t):
    return {"k": "T", "y": _n(t.year), "m": _n(t.month), "d": _n(t.day), "H": _n(t.hour),
            "M": _n(t.minute), "w": _n(t.DOW), "p": "X" if t.POD is None else str(t.POD)}


def val_json(v):
    """Projection of a Time / Interval / Duration / RegexMatch / None to Values.tla records."""
    if v is None:
        return {"k": "F"}
    if isinstance(v, T.Time):
        return time_json(v)
    if isinstance(v, T.Interval):
        return {"k": "I",
                "f": {"k": "N"} if v.t_from is None else time_json(v.t_from),
                "t": {"k": "N"} if v.t_to is None else time_json(v.t_to)}
    if isinstance(v, T.Duration):
        return {"k": "D", "n": int(v.value), "u": v.unit.value}
    if isinstance(v, T.RegexMatch):
        return tok_json(v)
    raise TypeError("cannot project %r" % (v,))


# ---- which rule reads the payload of which pattern id (from the registry of the tree) ------
def _pattern_desc(p):
    nm = getattr(p, "__name__", "")
    cell = p.__closure__[0].cell_contents if getattr(p, "__closure__", None) else None
    if nm == "_regex_match":
        return ("R", cell)
    if nm == "_predicate":
        return ("P", cell)
    if nm == "_dimension":
        return ("D", cell.__name__)
    return ("?", nm)


def registry_table():
    """rule name -> list of (kind, what) for every registered rule."""
    return {name: [_pattern_desc(p) for p in pats] for name, (f, pats) in RULES.items()}


_MODEL_RULES = None


def model_rule_table():
    """rule name -> pattern elements [("R", id) | ("P", name) | ("D", name)] of the frozen specs/RuleTable.tla."""
    global _MODEL_RULES
    if _MODEL_RULES is None:
        import re as _re
        src = open(os.path.join(os.path.dirname(os.path.dirname(os.path.abspath(__file__))), "specs", "RuleTable.tla"), encoding="utf8").read()
        tab = {}
        for m in _re.finditer(r"^\s*(rule\w+) \|-> <<(.*?)>>,?\s*$", src, _re.M):
            tab[m.group(1)] = [(k, int(v) if k == "R" else v.strip('"')) for k, v in _re.findall(r'([RPD])\((\d+|"[^"]*")\)', m.group(2))]
        _MODEL_RULES = tab
    return _MODEL_RULES


_ID_MAP = None
UNKNOWN_ID = 900      # live pattern identifiers the frozen model has no name for are reported as 900 + id


def id_map():
    """live pattern identifier -> the model's name for that pattern (the identifier RuleTable.tla uses).
    Identifiers are allocation-order dependent; what a pattern IS is given by the rule(s) that read it, so the mapping goes
    through (rule name, position in the rule's pattern).  A rule base that was extended or re-ordered is thereby judged with
    the same model; patterns only rules unknown to the model read are 'outside the model'."""
    global _ID_MAP
    if _ID_MAP is None:
        live = registry_table()
        model = model_rule_table()
        mp, clash = {}, set()
        for rn, pats in live.items():
            if rn not in model or len(model[rn]) != len(pats):
                continue
            for (k1, w1), (k2, w2) in zip(pats, model[rn]):
                if k1 == "R" and k2 == "R":
                    if mp.setdefault(w1, w2) != w2:
                        clash.add(w1)
        for w in clash:
            mp.pop(w, None)
        _ID_MAP = mp
    return _ID_MAP


def mid(live_id):
    return id_map().get(live_id, UNKNOWN_ID + int(live_id))


def live_id(model_id):
    for k, v in id_map().items():
        if v == model_id:
            return k
    return None


def outside_model(o):
    """Does an observation mention a pattern or a rule the frozen model does not know (rule base extended)?"""
    rules = model_rule_table()

    def bad(v, key=None):
        if isinstance(v, dict):
            if v.get("k") == "R" and isinstance(v.get("id"), int) and v["id"] >= UNKNOWN_ID:
                return True
            return any(bad(x, k) for k, x in v.items())
        if isinstance(v, list):
            if key == "ids":
                return any(isinstance(x, int) and x >= UNKNOWN_ID for x in v)
            if key == "rules":
                return any(isinstance(x, str) and x.startswith("rule") and x not in rules for x in v)
            return any(bad(x) for x in v)
        if key == "rule" and isinstance(v, str) and v.startswith("rule") and v not in rules:
            return True
        return False
    return bad(o)


_PAYLOAD_RULES = ["ruleNamedDOW", "ruleNamedMonth", "ruleNamedHour", "ruleEarlyLatePOD", "rulePOD",
                  "ruleDOM1", "ruleMonthOrdinal", "ruleDOM2", "ruleYear", "ruleDDMM", "ruleMMDD",
                  "ruleDDMMYYYY", "ruleHHMMmilitary", "ruleHHMM", "ruleHHOClock", "ruleBeforeTime",
                  "ruleAfterTime", "ruleDigitDuration", "ruleNamedNumberDuration", "ruleDurationHalf"]


def reader_of_id():
    tab = registry_table()
    out = {}
    for rn in _PAYLOAD_RULES:
        if rn in tab:
            for kind, what in tab[rn]:
                if kind == "R":
                    out[what] = rn
    return out


_READER = None


def _grp(m, name):
    try:
        return m.group(name)
    except (IndexError, KeyError):
        return None


def _first(m, names):
    for i, nm in enumerate(names):
        if _grp(m, nm):
            return i
    return X


def _month_of(m):
    g = _grp(m, "month")
    if g:
        return int(g)
    i = _first(m, MONTHS)
    return X if i == X else i + 1


def _ampm(m):
    g = _grp(m, "ampm")
    if not g:
        return "X"
    g = g.strip().lower()
    return g[0] if g and g[0] in "ap" else "X"


def _unit(m):
    for u in UNITS:
        if _grp(m, "d_" + u):
            return u
    return "X"


def tok_json(rm):
    """Projection of a RegexMatch: id + the payload the reading production takes from it."""
    global _READER
    if _READER is None:
        _READER = reader_of_id()
    m = rm.match
    n1 = n2 = n3 = X
    s1 = "X"
    rd = _READER.get(rm.id)
    if rd == "ruleNamedDOW":
        n1 = _first(m, DOWS)
    elif rd == "ruleNamedMonth":
        i = _first(m, MONTHS)
        n1 = X if i == X else i + 1
    elif rd == "ruleNamedHour":
        i = _first(m, ["t_%d" % k for k in range(1, 13)])
        n1 = X if i == X else i + 1
    elif rd == "ruleEarlyLatePOD":
        mod = "early" if _grp(m, "mod_early") else ("late" if _grp(m, "mod_late") else "")
        if _grp(m, "mod_very"):
            mod = "very" + mod
        s1 = mod or "X"
    elif rd == "rulePOD":
        i = _first(m, PODS)
        s1 = "X" if i == X else PODS[i]
    elif rd in ("ruleDOM1", "ruleDOM2"):
        n1 = int(m.group("day"))
    elif rd == "ruleMonthOrdinal":
        n1 = int(m.group("month"))
    elif rd == "ruleYear":
        n1 = int(m.group("year"))
    elif rd in ("ruleDDMM", "ruleMMDD"):
        n1 = int(m.group("day"))
        n2 = _month_of(m)
    elif rd == "ruleDDMMYYYY":
        n1 = int(m.group("day"))
        n2 = _month_of(m)
        n3 = int(m.group("year"))
    elif rd == "ruleHHMMmilitary":
        n1 = int(m.group("hour"))
        n2 = int(_grp(m, "minute") or 0)
        n3 = 1 if _grp(m, "clock") else 0
        s1 = _ampm(m)
    elif rd == "ruleHHMM":
        n1 = int(m.group("hour"))
        g = _grp(m, "minute")
        n2 = X if not g else int(g)
        s1 = _ampm(m)
    elif rd == "ruleHHOClock":
        n1 = int(m.group("hour"))
    elif rd in ("ruleBeforeTime", "ruleAfterTime"):
        n1 = 1 if _grp(m, "not") else 0
    elif rd == "ruleDigitDuration":
        g = m.group("num")
        n1 = int(g) if len(g) <= 9 else 2000000000
        s1 = _unit(m)
    elif rd == "ruleNamedNumberDuration":
        i = X
        for k in range(1, 32):
            if _grp(m, "n_%d" % k):
                i = k
        n1 = i
        s1 = _unit(m)
    elif rd == "ruleDurationHalf":
        s1 = _unit(m)
    return {"k": "R", "id": mid(int(rm.id)), "n1": n1, "n2": n2, "n3": n3, "s1": s1}


def span_json(v):
    return [int(v.mstart), int(v.mend)]


# ---- part-of-day table export ---------------------------------------------------------------
_PM = ("afternoon", "evening", "night", "last")
_AM = ("forenoon", "morning", "first")


def pod_table():
    out = {}
    for key, (h0, h1) in T.pod_hours.items():
        out[key] = {"h0": int(h0), "h1": int(h1), "aft": "afternoon" in key, "pm": any(s in key for s in _PM),
                    "am": any(s in key for s in _AM)}
    return out


def write_pod_table(path):
    with open(path, "w") as fd:
        json.dump(pod_table(), fd)
    return path


def write_pod_module(dirname):
    """PodData.tla: the part-of-day table of the tree under test as a TLA+ literal."""
    tab = pod_table()
    rows = []
    for key in sorted(tab):
        v = tab[key]
        if not key.isascii() or not key.isalnum():
            continue
        rows.append('  %s |-> [h0 |-> %d, h1 |-> %d, pm |-> %s, am |-> %s, aft |-> %s]' % (
            key, v["h0"], v["h1"], "TRUE" if v["pm"] else "FALSE", "TRUE" if v["am"] else "FALSE", "TRUE" if v["aft"] else "FALSE"))
    body = ("------------------------------ MODULE PodData ------------------------------\n"
            "(* GENERATED at check time from ctparse.types.pod_hours of the tree under test *)\n"
            "PodTable == [\n" + ",\n".join(rows) + "\n]\n"
            "=============================================================================\n")
    path = os.path.join(dirname, "PodData.tla")
    with open(path, "w") as fd:
        fd.write(body)
    return path


# ---- recorder ---------------------------------------------------------------------------------
class Recorder:
    """Collects what the engine did, through PartialParse.apply_rule (class attribute swap)."""

    def __init__(self, rows=True, spans=False):
        self.rows = {}          # key -> row (dedup by content)
        self.napplied = 0
        self.exceptions = []
        self.want_rows = rows
        self.want_spans = spans
        self.span_mut = []      # (rule, before, after) when an argument's span changed in place
        self.results = {}       # id(result object) -> object (kept alive): a production must build a fresh value

    def add_row(self, name, ts, args, res_json, before, after, spans_b=None, spans_a=None, alias=0):
        row = {"rule": name, "ts": ts_json(ts), "a": before, "a2": after, "res": res_json, "alias": alias}
        key = json.dumps(row, sort_keys=True)
        if key not in self.rows:
            self.rows[key] = row
        if spans_b is not None and spans_b != spans_a:
            self.span_mut.append((name, spans_b, spans_a))


@contextmanager
def recording(rec):
    orig = PartialParse.apply_rule

    def apply_rule(self, ts, rule, rule_name, match):
        args = self.prod[match[0]:match[1]]
        before = [val_json(a) for a in args]
        sp_b = [span_json(a) for a in args]
        rec.napplied += 1
        try:
            out = orig(self, ts, rule, rule_name, match)
        except Exception as ex:  # noqa: BLE001 - the recorder must see every escape
            after = [val_json(a) for a in args]
            rec.add_row(rule_name, ts, args, {"k": "E"}, before, after)
            rec.exceptions.append((rule_name, repr(ex)))
            raise
        after = [val_json(a) for a in args]
        sp_a = [span_json(a) for a in args]
        alias = 0
        if out is None:
            res = {"k": "F"}
        else:
            robj = out.prod[match[0]]
            res = val_json(robj)
            # the result must be a fresh object (or a copy of an argument): an object handed out before is shared state
            if id(robj) in rec.results and not any(robj is a for a in args):
                alias = 1
            rec.results[id(robj)] = robj
        rec.add_row(rule_name, ts, args, res, before, after, sp_b, sp_a, alias=alias)
        return out

    PartialParse.apply_rule = apply_rule
    try:
        yield rec
    finally:
        PartialParse.apply_rule = orig


def row_in_model(row):
    """Rows whose duration amounts exceed the model's 32-bit arithmetic domain are judged only
    for 'no exception' by the harness and are counted separately."""
    def big(v):
        if isinstance(v, dict):
            if v.get("k") == "D" and not (0 <= v.get("n", 0) <= 1000000):
                return True
            if v.get("k") == "R" and v.get("n1", 0) > 1000000:
                return True
            return any(big(x) for x in v.values())
        if isinstance(v, list):
            return any(big(x) for x in v)
        return False
    return not big(row)


# ---- virtual clock ------------------------------------------------------------------------------
class VirtualClock:
    """Replacement for ctparse.timers.perf_counter: one tick per read."""

    def __init__(self):
        self.now = 0
        self.reads = 0
        self.log = []
        self.tick = 1.0       # length of one tick in "seconds" (expiry behaviour must not depend on the unit)

    def __call__(self):
        self.reads += 1
        self.now += 1
        try:
            caller = sys._getframe(1).f_code.co_name
        except Exception:  # noqa: BLE001
            caller = "?"
        self.log.append(caller)
        return float(self.now) * self.tick


@contextmanager
def virtual_clock(clock):
    import ctparse.timers as tm
    orig = tm.perf_counter
    tm.perf_counter = clock
    try:
        yield clock
    finally:
        tm.perf_counter = orig


def fresh_scorer(kind, seed=0):
    from random import Random
    if kind == "shipped":
        return CTP._DEFAULT_SCORER
    if kind == "dummy":
        return DummyScorer()
    if kind == "random":
        return RandomScorer(Random(seed))
    if kind == "other":
        return other_nb_scorer()
    raise ValueError(kind)


_OTHER_NB = None


def other_nb_scorer():
    """A second naive-Bayes model over the same rule-trace tokens as the shipped one, trained by the harness
    (deterministic: the same model in every process).  Two models in one process is what exposes state that is shared
    between scorers (memo tables keyed by the rule sequence only)."""
    global _OTHER_NB
    if _OTHER_NB is None:
        from ctparse.nb_scorer import NaiveBayesScorer, train_naive_bayes
        from random import Random
        rnd = Random(5)
        names = list(RULES) + [str(i) for i in sorted(REGEX)]
        X = [[rnd.choice(names) for _ in range(rnd.randint(1, 7))] for _ in range(60)]
        y = [rnd.random() < 0.5 for _ in X]
        y[0], y[1] = True, False
        _OTHER_NB = NaiveBayesScorer(train_naive_bayes(X, y))
    return _OTHER_NB


def mk_ts(y, m, d, H=12, M=43, S=0, us=0):
    return datetime(y, m, d, H, M, S, us)


def tmpdir():
    return tempfile.mkdtemp(prefix="qa_verif_")


class WrapScorer(Scorer):
    """Delegates to a real scorer and records the partial parses it was asked to score."""

    def __init__(self, inner):
        self.inner = inner
        self.init_pps = []
        self.started = False
        self.nscore = 0
        self.nfinal = 0
        self.scores = []

    def score(self, txt, ts, pp):
        self.nscore += 1
        if not self.started and len(pp.rules) == len(pp.prod) and all(isinstance(x, T.RegexMatch) for x in pp.prod):
            self.init_pps.append(pp)
        sc = self.inner.score(txt, ts, pp)
        self.scores.append(sc)
        return sc

    def score_final(self, txt, ts, pp, prod):
        self.started = True
        self.nfinal += 1
        sc = self.inner.score_final(txt, ts, pp, prod)
        self.scores.append(sc)
        return sc
