"""End-to-end observation helpers: run the real parser on rendered expressions."""
from datetime import datetime, timedelta

from . import qa

CTP = qa.CTP


def ts_of(t):
    """tuple (y,m,d,H,M[,S,us]) -> datetime"""
    return datetime(*t)


def parse_val(text, ts, latent=True, **kw):
    """ctparse(text, ts) -> (value json, result) ; deterministic: no wall-clock timeout."""
    kw.setdefault("timeout", 0)
    r = CTP.ctparse(text, ts=ts, latent_time=latent, **kw)
    if r is None or r.resolution is None:
        return {"k": "F"}, r
    return qa.val_json(r.resolution), r


def obs_day(case):
    """case: dict(text, D, ts(tuple), label, form) -> observation of family `day`."""
    ts = ts_of(case["ts"])
    val, _ = parse_val(case["text"], ts)
    return {"fam": "day", "D": case["D"], "ts": qa.ts_json(ts), "val": val}


def boundary_dates(years=(2019, 2020, 2023, 2024), extra=()):
    """Reference dates where roll-overs happen: month ends, year ends, 28/29 Feb, 1 Mar,
    week boundaries."""
    out = set()
    for y in years:
        for m in range(1, 13):
            first = datetime(y, m, 1)
            nxt = datetime(y + (m == 12), (m % 12) + 1, 1)
            last = nxt - timedelta(days=1)
            for d in (first, last, last - timedelta(days=1), first + timedelta(days=1)):
                out.add((d.year, d.month, d.day))
        for md in ((2, 27), (2, 28), (3, 1), (12, 30), (1, 2)):
            out.add((y, md[0], md[1]))
    # one full week (every weekday as "today")
    for k in range(7):
        d = datetime(2021, 6, 14) + timedelta(days=k)
        out.add((d.year, d.month, d.day))
    for e in extra:
        out.add(e)
    return sorted(out)


def all_days(y0=2016, y1=2043):
    d = datetime(y0, 1, 1)
    end = datetime(y1, 12, 31)
    while d <= end:
        yield (d.year, d.month, d.day)
        d += timedelta(days=1)


def strip_private(o):
    return {k: v for k, v in o.items() if not k.startswith("_")}
