"""End-to-end observation helpers: run the real parser on rendered expressions."""
from datetime import datetime, timedelta

from . import qa

CTP = qa.CTP


def ts_of(t):
    """tuple (y,m,d,H,M[,S,us]) -> datetime"""
    return datetime(*t)


def parse_val(text, ts, latent=True, **kw):
    """ctparse(text, ts) -> (value json, result) ; deterministic: no wall-clock timeout."""
    kw.setdefault("timeout", 0)
    r = CTP.ctparse(text, ts=ts, latent_time=latent, **kw)
    if r is None or r.resolution is None:
        return {"k": "F"}, r
    return qa.val_json(r.resolution), r


def obs_day(case):
    """case: dict(text, D, ts(tuple), label, form) -> observation of family `day`."""
    ts = ts_of(case["ts"])
    val, _ = parse_val(case["text"], ts)
    return {"fam": "day", "D": case["D"], "D2": case.get("D2", NODAY), "ts": qa.ts_json(ts), "val": val}


NODAY = {"dk": "none", "n1": -1, "n2": -1, "n3": -1, "s": "X"}


def boundary_dates(years=(2019, 2020, 2023, 2024), extra=()):
    """Reference dates where roll-overs happen: month ends, year ends, 28/29 Feb, 1 Mar,
    week boundaries."""
    out = set()
    for y in years:
        for m in range(1, 13):
            first = datetime(y, m, 1)
            nxt = datetime(y + (m == 12), (m % 12) + 1, 1)
            last = nxt - timedelta(days=1)
            for d in (first, last, last - timedelta(days=1), first + timedelta(days=1)):
                out.add((d.year, d.month, d.day))
        for md in ((2, 27), (2, 28), (3, 1), (12, 30), (1, 2)):
            out.add((y, md[0], md[1]))
    # one full week (every weekday as "today")
    for k in range(7):
        d = datetime(2021, 6, 14) + timedelta(days=k)
        out.add((d.year, d.month, d.day))
    for e in extra:
        out.add(e)
    return sorted(out)


def all_days(y0=2016, y1=2043):
    d = datetime(y0, 1, 1)
    end = datetime(y1, 12, 31)
    while d <= end:
        yield (d.year, d.month, d.day)
        d += timedelta(days=1)


def strip_private(o):
    return {k: v for k, v in o.items() if not k.startswith("_")}


NOCLOCK = {"ck": "none", "h": -1, "mi": -1}


def obs_dayclock(case):
    ts = ts_of(case["ts"])
    val, _ = parse_val(case["text"], ts)
    return {"fam": "dayclock", "D": case["D"], "C": case["C"], "ts": qa.ts_json(ts), "val": val}


def obs_clock(case):
    ts = ts_of(case["ts"])
    val, _ = parse_val(case["text"], ts, latent=bool(case["latent"]))
    return {"fam": "clock", "C": case["C"], "ts": qa.ts_json(ts), "latent": int(case["latent"]), "val": val}


def obs_glue(case):
    ts = ts_of(case["ts"])
    vd, _ = parse_val(case["day_text"], ts)
    vc, _ = parse_val(case["clock_text"], ts, latent=False)
    vb, _ = parse_val(case["text"], ts)
    return {"fam": "glue", "D": case["D"], "C": case["C"], "ts": qa.ts_json(ts), "vd": vd, "vc": vc, "vb": vb}


def obs_crange(case):
    ts = ts_of(case["ts"])
    val, _ = parse_val(case["text"], ts, latent=(case["ctx"] != "bare"))
    return {"fam": "crange", "ctx": case["ctx"], "D": case.get("D", NODAY), "A": case["A"], "B": case["B"],
            "ts": qa.ts_json(ts), "val": val}


def obs_drange(case):
    ts = ts_of(case["ts"])
    val, _ = parse_val(case["text"], ts)
    return {"fam": "drange", "D1": case["D1"], "D2": case["D2"], "ts": qa.ts_json(ts), "val": val}


def obs_halfopen(case):
    ts = ts_of(case["ts"])
    val, _ = parse_val(case["text"], ts, latent=False)
    return {"fam": "halfopen", "side": case["side"], "D": case.get("D", NODAY), "C": case.get("C", NOCLOCK),
            "ts": qa.ts_json(ts), "val": val}


def obs_dur(case):
    ts = ts_of(case["ts"])
    val, _ = parse_val(case["text"], ts)
    return {"fam": "dur", "n": case["n"], "u": case["u"], "val": val}


def obs_fordur(case):
    ts = ts_of(case["ts"])
    val, _ = parse_val(case["text"], ts)
    return {"fam": "fordur", "D": case["D"], "C": case.get("C", NOCLOCK), "n": case["n"], "u": case["u"],
            "ts": qa.ts_json(ts), "val": val}


def obs_durrange(case):
    ts = ts_of(case["ts"])
    val, r = parse_val(case["text"], ts)
    full = 0
    if r is not None and r.resolution is not None:
        txt = qa.CTP._preprocess_string(case["text"])
        full = 1 if (r.resolution.mstart == 0 and r.resolution.mend >= len(txt.rstrip())) else 0
    return {"fam": "durrange", "n": case["n"], "u": case["u"], "D1": case["D1"], "D2": case["D2"],
            "ts": qa.ts_json(ts), "val": val, "full": full}


def obs_daypod(case):
    ts = ts_of(case["ts"])
    val, _ = parse_val(case["text"], ts)
    return {"fam": "daypod", "D": case["D"], "pod": case["pod"], "ts": qa.ts_json(ts), "val": val}
