#!/bin/bash
# harness/seedrun.sh <patch.diff> <check id> [<check id> ...]
# Applies a seeded change to /repo, runs the given checks (quick tier), and always restores /repo.
# Prints one line per check: DETECTED / MISSED.
set -u
PATCH="$1"; shift
cd /repo || exit 2
if ! git diff --quiet; then echo "refusing: /repo has uncommitted changes"; exit 2; fi
git apply "$PATCH" || { echo "patch does not apply"; exit 2; }
trap 'git -C /repo checkout -- . ' EXIT
for id in "$@"; do
  out=$(cd /verif && QUICKADD_OUT="${QUICKADD_OUT:-/tmp/qa_seedout}" VERIF_SEED="${VERIF_SEED:-0}" ./check "$id" --tier "${TIER:-quick}" 2>&1)
  rc=$?
  nviol=$(echo "$out" | grep -c "^VIOLATION")
  first=$(echo "$out" | grep -m1 "^VIOLATION" | cut -c1-260)
  if [ $rc -eq 1 ] && [ "$nviol" -gt 0 ]; then echo "DETECTED by $id: $first"; 
  elif [ $rc -eq 0 ]; then echo "MISSED by $id"; 
  else echo "MACHINERY($rc) in $id: $(echo "$out" | tail -3 | cut -c1-300)"; fi
done
