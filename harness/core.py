"""Check driver core: context, stages (case generation -> observation on the real code -> TLC
judgement), violations / known findings, evidence files, replay."""
import json
import multiprocessing as mp
import os
import sys
import time
import traceback

from . import obs as obsmod
from . import tlc

VERIF = os.path.dirname(os.path.dirname(os.path.abspath(__file__)))
# QUICKADD_OUT: write evidence/ and replays/ somewhere else (side-by-side runs of the seed regression must not overwrite
# each other's files or the committed evidence); the registered commands do not set it
_OUT = os.environ.get("QUICKADD_OUT") or VERIF
EVIDENCE_DIR = os.path.join(_OUT, "evidence")
REPLAY_DIR = os.path.join(_OUT, "replays")
KNOWN = os.path.join(VERIF, "KNOWN_FINDINGS.json")


class Ctx:
    def __init__(self, prop, tier, seed, level):
        self.prop = prop
        self.tier = tier
        self.seed = seed
        self.level = level
        self.t0 = time.time()
        self.states = 0
        self.transitions = 0
        self.traces = 0
        self.evaluations = 0
        self.nontrivial = set()
        self.samples = []
        self.violations = []      # dicts: sig, what, replay(case)
        self.notes = []
        self.assumptions = []
        self.mc_runs = []
        self.stage_counts = {}
        self.exhaustive = None
        self.extra = {}
        self.rule_text = ""

    @property
    def quick(self):
        return self.tier == "quick"

    # ---- R1: model checking -------------------------------------------------------------
    def mc(self, module, cfg=None, env=None, timeout=900, workers=16, must_hold=True, coverage=False,
           simulate=None, depth=None, expect_violation=None, heap="6g"):
        tmp = None
        e = {}
        import tempfile
        import shutil
        tmp = tempfile.mkdtemp(prefix="qa_mc_")
        try:
            e.update(obsmod.base_env(tmp))
            if env:
                e.update(env)
            r = tlc.run_tlc(module, cfg=cfg, env=e, timeout=timeout, workers=workers, coverage=coverage,
                            simulate=simulate, depth=depth, seed=self.seed if simulate else None, heap=heap)
        finally:
            shutil.rmtree(tmp, ignore_errors=True)
        self.states += r.distinct
        self.transitions += r.generated
        self.mc_runs.append({"module": module, "cfg": cfg or module + ".cfg", **r.summary()})
        if r.timed_out:
            self.notes.append("TLC run %s/%s did not finish within %ds (%d distinct states explored, no "
                              "violation in the explored part; NOT a proof)" % (module, cfg, timeout, r.distinct))
            return r
        if r.violated:
            if must_hold:
                self.violation({"stage": "model", "module": module, "cfg": cfg or module, "violated": r.violated[0]},
                               "TLC: %s violated in %s" % (r.violated[0], module),
                               {"kind": "model", "module": module, "cfg": cfg, "tail": r.stdout[-3000:]})
            return r
        if not r.ok:
            raise obsmod.MachineryError("TLC failed on %s/%s:\n%s" % (module, cfg, "\n".join(r.errors[:3]) or r.stdout[-2000:]))
        return r

    # ---- R3: judgement of observations by a trace module -------------------------------------
    def judge(self, module, observations, cfg=None, env=None, timeout=3000, workers=2):
        v = obsmod.judge(module, observations, cfg=cfg, env=env, timeout=timeout, workers=workers)
        self.traces += v.n - v.skipped
        if v.skipped:
            self.skipped_outside_model = getattr(self, "skipped_outside_model", 0) + v.skipped
        if v.n:
            self.states += v.distinct
            self.transitions += v.generated
        return v

    def violation(self, sig, what, case):
        self.violations.append({"sig": sig, "what": what, "case": case})

    def sample(self, x, cap=6):
        if len(self.samples) < cap:
            self.samples.append(x)

    def note(self, s):
        self.notes.append(s)


def _run_chunk(args):
    fn, cases = args
    out = []
    for c in cases:
        try:
            out.append((c, fn(c), None))
        except Exception:  # noqa: BLE001
            out.append((c, None, traceback.format_exc()))
    return out


def pmap(fn, cases, procs=16, chunk=None):
    """Run fn(case) for every case in a fork pool; returns list of (case, result, err)."""
    cases = list(cases)
    if not cases:
        return []
    if len(cases) < 32 or procs <= 1:
        return _run_chunk((fn, cases))
    chunk = chunk or max(1, min(400, len(cases) // (procs * 4) or 1))
    chunks = [(fn, cases[i:i + chunk]) for i in range(0, len(cases), chunk)]
    ctx = mp.get_context("fork")
    with ctx.Pool(procs) as pool:
        res = pool.map(_run_chunk, chunks)
    out = []
    for r in res:
        out.extend(r)
    return out


# ---- known findings ---------------------------------------------------------------------------
def load_known():
    if not os.path.exists(KNOWN):
        return {"findings": [], "fixed": []}
    with open(KNOWN) as fd:
        return json.load(fd)


def match_known(prop, sig, known):
    for f in known.get("findings", []):
        if f.get("property") != prop:
            continue
        if all(str(sig.get(k)) == str(v) for k, v in f.get("match", {}).items()):
            return f
    return None


# ---- finishing: evidence, verdict lines, exit status ------------------------------------------
def finish(ctx, check_meta):
    known = load_known()
    real = []
    known_hit = {}
    for v in ctx.violations:
        f = match_known(ctx.prop, v["sig"], known)
        if f is not None:
            known_hit.setdefault(f["id"], (f, []))[1].append(v)
        else:
            real.append(v)
    os.makedirs(REPLAY_DIR, exist_ok=True)
    os.makedirs(EVIDENCE_DIR, exist_ok=True)
    import glob
    for old_file in glob.glob(os.path.join(REPLAY_DIR, "%s_%s_*.json" % (ctx.prop, ctx.tier))):
        os.remove(old_file)
    lines = []
    # group real violations by signature so that one defect prints one line (first 20 groups)
    groups = {}
    for v in real:
        groups.setdefault(json.dumps(v["sig"], sort_keys=True), []).append(v)
    for gi, (k, vs) in enumerate(sorted(groups.items())):
        path = os.path.join(REPLAY_DIR, "%s_%s_%03d.json" % (ctx.prop, ctx.tier, gi))
        with open(path, "w") as fd:
            json.dump({"property": ctx.prop, "sig": vs[0]["sig"], "what": vs[0]["what"], "count": len(vs),
                       "cases": [x["case"] for x in vs[:20]]}, fd, indent=1, default=str)
        if gi < 12:
            lines.append("VIOLATION property=%s replay=%s   # %s (%d cases) sig=%s" % (ctx.prop, path, vs[0]["what"][:160], len(vs), k[:200]))
    for fid, (f, vs) in sorted(known_hit.items()):
        print("KNOWN-FINDING: property=%s %s [%s; %d cases this run]" % (ctx.prop, f["what"], fid, len(vs)))
    for ln in lines:
        print(ln)
    if len(groups) > 12:
        print("... and %d more violation groups (replay files written under %s)" % (len(groups) - 12, REPLAY_DIR))
    if getattr(ctx, "skipped_outside_model", 0):
        ctx.notes.append("OUTSIDE-MODEL: %d observations mention a pattern or rule the frozen RuleTable.tla has no name for (the rule base was "
                         "extended); they were not judged" % ctx.skipped_outside_model)
    cov = {
        "samples": ctx.samples[:8] or ["(no sample recorded)"],
        "evaluations": int(ctx.evaluations),
        "distinct_nontrivial": int(len(ctx.nontrivial)) if ctx.nontrivial else int(ctx.extra.get("distinct_nontrivial", 0)),
        "rule": ctx.rule_text,
        "states": int(ctx.states),
        "transitions": int(ctx.transitions),
        "traces_validated_against_impl": int(ctx.traces),
        "tlc_runs": ctx.mc_runs,
        "stages": ctx.stage_counts,
        "notes": ctx.notes,
        "known_findings_hit": {fid: len(vs) for fid, (f, vs) in known_hit.items()},
    }
    if ctx.exhaustive is not None:
        cov["exhaustive"] = bool(ctx.exhaustive)
    if ctx.level == "translation_validation":
        cov["programs"] = int(ctx.extra.get("programs", ctx.evaluations))
        cov["disagreements_checked"] = int(ctx.extra.get("disagreements_checked", 0))
    for k, v in ctx.extra.items():
        cov.setdefault(k, v)
    ev = {
        "property_id": ctx.prop, "tier": ctx.tier, "seed": int(ctx.seed), "level": ctx.level,
        "coverage": cov, "assumptions": ctx.assumptions, "wall_s": round(time.time() - ctx.t0, 2),
        "violations": len(real),
    }
    with open(os.path.join(EVIDENCE_DIR, ctx.prop + ".json"), "w") as fd:
        json.dump(ev, fd, indent=1, default=str)
    print("%s tier=%s: %d evaluations, %d TLC states, %d observations/traces judged, %d violations (%d known) in %.1fs"
          % (ctx.prop, ctx.tier, ctx.evaluations, ctx.states, ctx.traces, len(real), sum(len(v[1]) for v in known_hit.values()),
             time.time() - ctx.t0))
    return 1 if real else 0


class _Diag:
    """Picklable wrapper: diagnose(case, reject) for pmap."""

    def __init__(self, fn):
        self.fn = fn

    def __call__(self, arg):
        return self.fn(arg["case"], arg["reject"]) or {}


# ---- stages: cases -> observations on the real code -> TLC judgement ----------------------------
def run_stage(ctx, name, cases, fn, module, cfg=None, sig_keys=("label", "form"), nontrivial=None,
              raise_is_violation=True, judge_workers=2, diagnose=None, batch=None):
    """Run fn(case) -> observation dict (or list of dicts) for every case in a process pool, have the
    TLA+ trace module judge every observation, and turn rejections into violations.
    batch=N: work through the cases N at a time (bounds the memory of stages with millions of observations)."""
    cases = list(cases)
    if batch and len(cases) > batch:
        v = None
        for k in range(0, len(cases), batch):
            v = run_stage(ctx, name, cases[k:k + batch], fn, module, cfg=cfg, sig_keys=sig_keys, nontrivial=nontrivial,
                          raise_is_violation=raise_is_violation, judge_workers=judge_workers, diagnose=diagnose)
        return v
    for c in cases:
        c["stage"] = name
    res = pmap(fn, cases)
    obs_list = []
    owner = []
    n_raise = 0
    for case, out, err in res:
        if err is not None:
            n_raise += 1
            if raise_is_violation:
                sig = {"stage": name, "clause": "raised"}
                for k in sig_keys:
                    if k in case:
                        sig[k] = case[k]
                sig["exc"] = err.strip().splitlines()[-1][:80]
                ctx.violation(sig, "the real code raised: " + err.strip().splitlines()[-1][:120], case)
            else:
                raise obsmod.MachineryError("stage %s: harness function raised:\n%s" % (name, err))
            continue
        outs = out if isinstance(out, list) else [out]
        for o in outs:
            obs_list.append({k: v for k, v in o.items() if not k.startswith("_")})
            owner.append(case)
    ctx.evaluations += len(cases)
    v = ctx.judge(module, obs_list, cfg=cfg, workers=judge_workers)
    diag = {}
    if diagnose is not None and v.rejects:
        # diagnoses may be expensive (exhaustive re-parses): in the process pool, one per rejected observation
        dres = pmap(_Diag(diagnose), [{"case": owner[r["id"] - 1], "reject": {k: r[k] for k in ("id", "clause", "detail")}} for r in v.rejects])
        for (arg, out, err) in dres:
            diag[arg["reject"]["id"]] = out if err is None else {"diagnose_error": err.strip().splitlines()[-1][:80]}
    for r in v.rejects:
        case = owner[r["id"] - 1]
        sig = {"stage": name, "clause": r["clause"]}
        for k in sig_keys:
            if k in case:
                sig[k] = case[k]
        if diagnose is not None:
            sig.update(diag.get(r["id"]) or {})
        ctx.violation(sig, "%s: %s rejected (%s); expected %s" % (name, case.get("text", case.get("label", "case")),
                                                                 r["clause"], r["detail"][:200]),
                      dict(case, observed=r["obs"], expected=r["detail"]))
    for case in cases:
        key = nontrivial(case) if nontrivial else json.dumps({k: case[k] for k in case if k not in ("stage",)}, sort_keys=True, default=str)
        ctx.nontrivial.add((name, key))
    if obs_list:
        ctx.sample({"stage": name, "case": {k: v for k, v in cases[0].items()}, "observation": obs_list[0]})
    prev = ctx.stage_counts.get(name) or {}
    ctx.stage_counts[name] = {"cases": len(cases) + prev.get("cases", 0), "observations": len(obs_list) + prev.get("observations", 0),
                              "rejected": len(v.rejects) + prev.get("rejected", 0), "raised": n_raise + prev.get("raised", 0)}
    return v


def generic_replay(ctx, rp, stages):
    by = {}
    for c in rp.get("cases", []):
        if c.get("kind") == "model":
            ctx.mc(c["module"], c.get("cfg"))
            continue
        by.setdefault(c.get("stage"), []).append({k: v for k, v in c.items() if k not in ("observed", "expected")})
    for name, cs in by.items():
        if name not in stages:
            raise obsmod.MachineryError("unknown stage in replay file: %r" % (name,))
        fn, module = stages[name][:2]
        run_stage(ctx, name, cs, fn, module)
