"""./check selftest - shows that the binding between specification and code is real:
  * negative controls at model level (a specification of the PINNED defect must be refuted by TLC),
  * corrupted observations must be rejected by every trace module,
  * a recorded engine trace with one event removed / one field changed must be rejected."""
import copy
import json
import random

from . import core, obs, qa, syn, searchtrace, tlc
from .obs import MachineryError


def expect(name, cond, detail=""):
    print(("ok   " if cond else "FAIL ") + name + ((" - " + detail) if detail and not cond else ""))
    return 0 if cond else 1


def run():
    bad = 0
    import tempfile
    import shutil
    tmp = tempfile.mkdtemp(prefix="qa_self_")
    try:
        env = obs.base_env(tmp)
        # 1. negative control: with raw (blank-swallowing) match spans the embedding invariant is refuted
        r = tlc.run_tlc("Embed", cfg="MC_Embed_raw.cfg", env=env, timeout=300)
        bad += expect("Embed.tla refutes the pinned span semantics (raw mode)", "EmbedInvariant" in r.violated, str(r.summary()))
        r = tlc.run_tlc("Embed", cfg="MC_Embed_trimmed.cfg", env=env, timeout=300)
        bad += expect("Embed.tla holds with trimmed spans", r.ok and r.distinct > 1000, str(r.summary()))
        # vacuity: every action of the engine / sessions / registry models is taken (TLC -coverage 1)
        for module, cfg, actions in (("MC_SearchImpl", "MC_SearchImpl_I2_d2.cfg", ["ScoreInit", "InitDone", "Pop", "ApplyOne", "ExpandDone", "EmitOne", "EmitDone", "Finish", "Expire"]),
                                     ("MC_Sessions", "MC_Sessions_2a.cfg", ["Step", "Abandon", "Crash"]),
                                     ("RuleReg", "MC_RuleReg.cfg", ["Register"]),
                                     ("Derive", "MC_Derive_pod_q.cfg", ["Next"])):
            r = tlc.run_tlc(module, cfg=cfg, env=env, timeout=3000, coverage=True, workers=8)
            missing = [a for a in actions if r.coverage.get(a, (0, 0))[1] == 0]
            bad += expect("%s/%s: every action taken (%s)" % (module, cfg, ", ".join("%s=%d" % (a, r.coverage.get(a, (0, 0))[1]) for a in actions)),
                          r.ok and not missing, "never taken: %s" % missing)
        # the refinement SearchImpl => Search is refuted as soon as a depth limit truncates the stack
    finally:
        shutil.rmtree(tmp, ignore_errors=True)
    # 2. rule rows: a corrupted row must be rejected, the genuine ones accepted
    from datetime import datetime
    rec = qa.Recorder()
    with qa.recording(rec):
        for t in ("tomorrow 9-17", "monday 8pm", "5.3.2021 for 3 days"):
            list(qa.CTP.ctparse_gen(t, datetime(2018, 3, 7, 12, 43), timeout=0, max_stack_depth=0, scorer=qa.DummyScorer(), latent_time=False))
    rows = list(rec.rows.values())
    v = obs.judge("RulesTrace", rows)
    bad += expect("RulesTrace accepts %d genuine rule rows" % len(rows), not v.rejects, str(v.rejects[:1]))
    broken = copy.deepcopy(rows[:6])
    for i, r_ in enumerate(broken):
        if r_["res"].get("k") == "T":
            r_["res"]["d"] = (r_["res"]["d"] % 28) + 1 if r_["res"]["d"] > 0 else 5
        else:
            r_["res"] = {"k": "F"} if r_["res"].get("k") != "F" else {"k": "T", "y": 1, "m": 1, "d": 1, "H": -1, "M": -1, "w": -1, "p": "X"}
    v = obs.judge("RulesTrace", broken)
    bad += expect("RulesTrace rejects every corrupted row", len({x["id"] for x in v.rejects}) == len(broken), "%d of %d" % (len({x["id"] for x in v.rejects}), len(broken)))
    # 3. end-to-end judge: corrupted day
    from . import e2e, grammar as G
    o = e2e.obs_day({"text": "tomorrow", "D": G.day("rel", 1), "ts": (2018, 3, 7, 12, 43)})
    o2 = copy.deepcopy(o)
    o2["val"]["d"] += 1
    v = obs.judge("DenoteTrace", [o, o2])
    bad += expect("DenoteTrace accepts the real observation and rejects the corrupted one", [x["id"] for x in v.rejects] == [2], str(v.rejects))
    # 4. engine traces: genuine accepted; one event removed / one score changed / emission flag flipped rejected
    gr = syn.Grammar("I2", [("ta", "qa"), ("tx", "q(a|x)"), ("tb", "qb")],
                     [("ra", ["ta"], "A"), ("rx", ["tx"], "A"), ("rb", ["tb"], "B"), ("rab", ["A", "B"], "C"), ("rabs", ["ta", "B"], "B")])
    traces, ys = [], []
    with syn.installed(gr) as g:
        for seed in range(6):
            ev, init, y, _ = syn.run_engine(g, "qa qb", random.Random(seed), [0, 1, 2], depth=0)
            traces.append(ev)
            ys.append(y)
    t1 = copy.deepcopy(traces[0])
    k = [i for i, e in enumerate(t1) if e["ev"] == "A"][1]
    del t1[k]
    t2 = copy.deepcopy(traces[1])
    for e in t2:
        if e["ev"] == "A" and e["res"] != "FAIL":
            e["score"] += 1
            break
    t3 = copy.deepcopy(traces[2])
    for e in t3:
        if e["ev"] == "SF" and e["emit"] == 1:
            e["emit"] = 0
            break
    y4 = copy.deepcopy(ys[3])
    y4[0][3] = y4[0][3][:-1]
    acc, r = searchtrace.judge_group(gr, init, 0, False, (1, 1), traces + [t1, t2, t3, traces[3]], yields=ys + [ys[0], ys[1], ys[2], y4])
    bad += expect("SearchTrace accepts 6 genuine engine runs", set(range(1, 7)) <= acc, str(sorted(acc)))
    bad += expect("SearchTrace rejects a run with one event removed / a changed score / a flipped emission", not ({7, 8, 9} & acc), str(sorted(acc)))
    bad += expect("SearchTrace flags an untruthful production trace", (10, "untruthful-production") in r.outbad, str(r.outbad))
    print("selftest: %d failure(s)" % bad)
    return 1 if bad else 0
