SPECIFICATION Spec
CONSTANTS
  Patterns = {"v1", "v2", "e1", "e2"}
  Bad = {"e1", "e2"}
  MaxLen = 4
  FirstId = 500
INVARIANT NoBadRegistered
INVARIANT Injective
INVARIANT Dense
INVARIANT Export
CHECK_DEADLOCK FALSE
