SPECIFICATION Spec
CONSTANTS
  Alphabet = {"a", "b"}
  MaxDocs = 3
  MaxLen = 3
INVARIANT WindowCount
INVARIANT TotalsAreSums
INVARIANT QueryOfTrainingDocIsKnown
CHECK_DEADLOCK FALSE
