------------------------------- MODULE CandTrace -------------------------------
(* C02: every candidate the parser streams or returns, judged by Values!WellFormed and the         *)
(* accessor operators of Values.tla.  Observation: val, span [s, e), length n of the normalised    *)
(* text, and what calling .start / .end / .dt on the real object gave (acc_* = 0 raised, 1 fine)   *)
(* with the values returned.                                                                        *)
EXTENDS Values, TLC, Json, IOUtils
Obs == ndJsonDeserialize(IOEnv.QA_OBS_FILE)
VARIABLE l
Reject(o, clause, detail) == PrintT(<<"REJECT", o.id, clause, ToString(detail)>>)
Expect(o, clause, cond, detail) == IF cond THEN TRUE ELSE Reject(o, clause, detail)
EndPoint(v, which) == IF v = NONE THEN NONE ELSE IF which = "s" THEN StartOf(v) ELSE EndOf(v)
Check(o) ==
  /\ Expect(o, "ill-formed-value", WellFormed(o.val), o.val)
  /\ Expect(o, "span-outside-text", 0 <= o.s /\ o.s < o.e /\ o.e <= o.n, <<o.s, o.e, o.n>>)
  /\ Expect(o, "accessor-raised", o.acc_start = 1 /\ o.acc_end = 1 /\ (o.has_date = 1 => o.acc_dt = 1), o.val)
  /\ IsTime(o.val) =>
       /\ Expect(o, "start-accessor", o.acc_start = 0 \/ o.start = StartOf(o.val), StartOf(o.val))
       /\ Expect(o, "end-accessor", o.acc_end = 0 \/ o.end = EndOf(o.val), EndOf(o.val))
  /\ IsInterval(o.val) =>
       /\ Expect(o, "start-accessor", o.acc_start = 0 \/ o.start = EndPoint(o.val.f, "s"), EndPoint(o.val.f, "s"))
       /\ Expect(o, "end-accessor", o.acc_end = 0 \/ o.end = EndPoint(o.val.t, "e"), EndPoint(o.val.t, "e"))
ASSUME TLCSet(7, Obs)
Init == LET O == TLCGet(7) IN l \in 1..Len(O) /\ Check(O[l])
Next == UNCHANGED l
Spec == Init /\ [][Next]_l
=============================================================================
