----------------------------- MODULE SearchImpl -----------------------------
(***************************************************************************)
(* The candidate search of quickadd AS WRITTEN (ctparse/ctparse.py:        *)
(* _ctparse, lines 163-300), one action per block of the code, over an     *)
(* arbitrary ground rewrite system given as constants.  The scorer is NOT  *)
(* fixed: every scoring point picks any value of Scores, so TLC explores   *)
(* every scorer (a RandomScorer is just one behaviour).  The deadline is   *)
(* modelled by a flag that may flip at ANY point (Expire), so TLC explores *)
(* every expiry point; the engine only notices at its next check.          *)
(*                                                                         *)
(* An element of a production is [a, s, e, tok]: atom name, character span *)
(* and whether it is a pattern match (token).  Tokens compare by name and  *)
(* span, values by name only (types.py: __eq__ ignores the span), which is *)
(* what the two dedup tables (stack_prod, parse_prod) see.                 *)
(*                                                                         *)
(*   action          code                                                  *)
(*   ScoreInit       190-195  one partial parse per candidate sequence,    *)
(*                            rule pre-filter + score; deadline check per  *)
(*                            sequence                                     *)
(*   InitDone        198-213  sort, relative_match_len filter, truncation  *)
(*   LoopCheck       234-235  while stack: t_fun()                         *)
(*   Pop             236      last of the list sorted by (coverage, score) *)
(*   ApplyOne        240-263  next applicable (rule, window) in registry   *)
(*                            order; score; compare with stack_prod        *)
(*   EmitOne         264-286  score_final; compare with parse_prod; yield  *)
(*   Extend          287-292  extend, sort, truncate                       *)
(*   Timeout         298-300  CTParseTimeoutError swallowed, stream ends   *)
(***************************************************************************)
EXTENDS Integers, Sequences, FiniteSets, TLC

CONSTANTS Rewrites,    \* set of [rule, lhs, rhs]: lhs a sequence of atom names, rhs an atom name or "FAIL"
          RuleOrder,   \* sequence of rule names: registration order = iteration order
          InitSeqs,    \* sequence of candidate sequences (sequences of token elements), in the order built
          Depth,       \* max_stack_depth, 0 = unlimited
          RelNum, RelDen,   \* relative_match_len as a fraction
          Scores,      \* what a scorer may return
          CanExpire    \* TRUE: a positive timeout is set (the deadline may pass at any point)

VARIABLES pc,         \* "init" | "loop" | "expand" | "emit" | "done"
          idx,        \* init: next candidate sequence; emit: next element of cur.prod
          stack,      \* set of partial parses [prod, rules, score, cov]
          stackProd,  \* dedup table of partial productions: key -> best score seen
          parseProd,  \* dedup table of emitted values: name -> best score emitted
          out,        \* the stream: sequence of [val, s, e, rules, score]
          cur,        \* the popped partial parse
          pend,       \* applicable (rule, window) pairs still to apply, in code order
          newEls,     \* new stack elements of this expansion
          expired,    \* the deadline has passed (not yet necessarily noticed)
          timedOut,   \* the stream ended by Timeout
          work,       \* filter/score/apply events since the last deadline check
          maxWork     \* maximum of work over the run
vars == <<pc, idx, stack, stackProd, parseProd, out, cur, pend, newEls, expired, timedOut, work, maxWork>>

NoPP == [prod |-> <<>>, rules |-> <<>>, score |-> 0, cov |-> 0]

Key(prod) == [i \in 1..Len(prod) |-> IF prod[i].tok THEN prod[i] ELSE [a |-> prod[i].a]]
Cov(prod) == prod[Len(prod)].e - prod[1].s
Names(prod) == [i \in 1..Len(prod) |-> prod[i].a]

\* p is ranked below q in the sort order of the stack (PartialParse.__lt__)
Less(p, q) == p.cov < q.cov \/ (p.cov = q.cov /\ p.score < q.score)
MaximalIn(p, S) == p \in S /\ \A q \in S : ~Less(p, q)
\* stack[-Depth:] of the sorted list: any Depth elements such that no dropped one outranks a kept one
\* (ties are resolved by the stable sort; the specification allows either)
Truncations(S) ==
  IF Depth = 0 \/ Cardinality(S) <= Depth THEN {S}
  ELSE {K \in SUBSET S : Cardinality(K) = Depth /\ \A d \in S \ K : \A k \in K : ~Less(k, d)}

\* applicable (rule, window start) pairs in the order the code tries them
RuleIdx(r) == CHOOSE i \in 1..Len(RuleOrder) : RuleOrder[i] = r
Applicable(prod) ==
  {<<rw, i>> \in Rewrites \X (1..Len(prod)) :
      /\ i + Len(rw.lhs) - 1 <= Len(prod)
      /\ \A j \in 1..Len(rw.lhs) : prod[i + j - 1].a = rw.lhs[j]}
Before(x, y) == RuleIdx(x[1].rule) < RuleIdx(y[1].rule) \/ (x[1].rule = y[1].rule /\ x[2] < y[2])
RECURSIVE SortPairs(_)
SortPairs(S) == IF S = {} THEN <<>>
                ELSE LET m == CHOOSE x \in S : \A y \in S \ {x} : Before(x, y) IN <<m>> \o SortPairs(S \ {m})

ApplyRewrite(prod, rw, i) ==
  LET n == Len(rw.lhs)
      v == [a |-> rw.rhs, s |-> prod[i].s, e |-> prod[i + n - 1].e, tok |-> FALSE]
  IN SubSeq(prod, 1, i - 1) \o <<v>> \o SubSeq(prod, i + n, Len(prod))

Bump == /\ work' = work + 1
        /\ maxWork' = IF work + 1 > maxWork THEN work + 1 ELSE maxWork

Init ==
  /\ pc = "init" /\ idx = 1 /\ stack = {} /\ stackProd = <<>> /\ parseProd = <<>> /\ out = <<>>
  /\ cur = NoPP /\ pend = <<>> /\ newEls = {} /\ expired = FALSE /\ timedOut = FALSE /\ work = 0 /\ maxWork = 0

\* the deadline passes - at any point of the run, unnoticed
Expire == /\ CanExpire /\ ~expired /\ pc # "done"
          /\ expired' = TRUE
          /\ UNCHANGED <<pc, idx, stack, stackProd, parseProd, out, cur, pend, newEls, timedOut, work, maxWork>>

\* a deadline check: ends the run when the deadline has passed, else resets the work counter
Timeout == /\ pc' = "done" /\ timedOut' = TRUE
           /\ UNCHANGED <<idx, stack, stackProd, parseProd, out, cur, pend, newEls, expired, work, maxWork>>

ScoreInit(sc) ==
  /\ pc = "init" /\ idx <= Len(InitSeqs)
  /\ IF expired THEN Timeout
     ELSE LET prod == InitSeqs[idx]
              pp == [prod |-> prod, rules |-> Names(prod), score |-> sc, cov |-> Cov(prod)]
          IN /\ stack' = stack \cup {pp}
             /\ idx' = idx + 1
             \* one rule pre-filter + one scoring per candidate sequence, after a deadline check
             /\ work' = 2 /\ maxWork' = IF 2 > maxWork THEN 2 ELSE maxWork
             /\ UNCHANGED <<pc, stackProd, parseProd, out, cur, pend, newEls, expired, timedOut>>

InitDone ==
  /\ pc = "init" /\ idx > Len(InitSeqs)
  /\ LET best == CHOOSE p \in stack : MaximalIn(p, stack)
         kept == IF stack = {} THEN {} ELSE {p \in stack : p.cov * RelDen >= best.cov * RelNum}
     IN stack' \in Truncations(kept)
  /\ pc' = "loop"
  /\ UNCHANGED <<idx, stackProd, parseProd, out, cur, pend, newEls, expired, timedOut, work, maxWork>>

Pop ==
  /\ pc = "loop" /\ stack # {}
  /\ IF expired THEN Timeout
     ELSE \E p \in stack :
            /\ MaximalIn(p, stack)
            /\ cur' = p
            /\ stack' = stack \ {p}
            /\ pend' = SortPairs(Applicable(p.prod))
            /\ newEls' = {}
            /\ pc' = "expand"
            /\ work' = 0
            /\ UNCHANGED <<idx, stackProd, parseProd, out, expired, timedOut, maxWork>>

Finish ==
  /\ pc = "loop" /\ stack = {}
  /\ pc' = "done"
  /\ UNCHANGED <<idx, stack, stackProd, parseProd, out, cur, pend, newEls, expired, timedOut, work, maxWork>>

ApplyOne(sc) ==
  /\ pc = "expand" /\ pend # <<>>
  /\ LET rw == Head(pend)[1]  i == Head(pend)[2] IN
     IF rw.rhs = "FAIL"
     THEN /\ pend' = Tail(pend) /\ Bump
          /\ UNCHANGED <<pc, idx, stack, stackProd, parseProd, out, cur, newEls, expired, timedOut>>
     ELSE LET np == ApplyRewrite(cur.prod, rw, i)
              pp == [prod |-> np, rules |-> Append(cur.rules, rw.rule), score |-> sc, cov |-> Cov(np)]
              k == Key(np)
              isNew == k \notin DOMAIN stackProd \/ stackProd[k] < sc
          IN /\ pend' = Tail(pend)
             /\ newEls' = IF isNew THEN newEls \cup {pp} ELSE newEls
             /\ stackProd' = IF isNew THEN [x \in DOMAIN stackProd \cup {k} |-> IF x = k THEN sc ELSE stackProd[x]]
                                      ELSE stackProd
             /\ work' = work + 2 /\ maxWork' = IF work + 2 > maxWork THEN work + 2 ELSE maxWork
             /\ UNCHANGED <<pc, idx, stack, parseProd, out, cur, expired, timedOut>>

ExpandDone ==
  /\ pc = "expand" /\ pend = <<>>
  /\ IF newEls = {}
     THEN /\ pc' = "emit" /\ idx' = 1
          /\ UNCHANGED <<stack, stackProd, parseProd, out, cur, pend, newEls, expired, timedOut, work, maxWork>>
     ELSE /\ stack' \in Truncations(stack \cup newEls)
          /\ pc' = "loop"
          /\ UNCHANGED <<idx, stackProd, parseProd, out, cur, pend, newEls, expired, timedOut, work, maxWork>>

EmitOne(sc) ==
  /\ pc = "emit" /\ idx <= Len(cur.prod)
  /\ LET x == cur.prod[idx] IN
     IF x.tok
     THEN /\ idx' = idx + 1
          /\ UNCHANGED <<pc, stack, stackProd, parseProd, out, cur, pend, newEls, expired, timedOut, work, maxWork>>
     ELSE LET better == x.a \notin DOMAIN parseProd \/ parseProd[x.a] < sc IN
          /\ idx' = idx + 1
          /\ parseProd' = IF better THEN [n \in DOMAIN parseProd \cup {x.a} |-> IF n = x.a THEN sc ELSE parseProd[n]]
                                    ELSE parseProd
          /\ out' = IF better THEN Append(out, [val |-> x.a, s |-> x.s, e |-> x.e, rules |-> cur.rules, score |-> sc]) ELSE out
          /\ Bump
          /\ UNCHANGED <<pc, stack, stackProd, cur, pend, newEls, expired, timedOut>>

EmitDone ==
  /\ pc = "emit" /\ idx > Len(cur.prod)
  /\ pc' = "loop"
  /\ UNCHANGED <<idx, stack, stackProd, parseProd, out, cur, pend, newEls, expired, timedOut, work, maxWork>>

Next ==
  \/ Expire
  \/ \E sc \in Scores : ScoreInit(sc) \/ ApplyOne(sc) \/ EmitOne(sc)
  \/ InitDone \/ Pop \/ Finish \/ ExpandDone \/ EmitDone

Spec == Init /\ [][Next]_vars /\ WF_vars(Next)

\* ---- the rewrite system's own semantics (what the rules license) -----------------------------
RECURSIVE Closure(_)
Step(P) == P \cup {ApplyRewrite(p, x[1], x[2]) : <<p, x>> \in {<<p, x>> \in P \X (Rewrites \X (1..8)) :
                                                           x \in Applicable(p) /\ x[1].rhs # "FAIL"}}
Closure(P) == LET Q == Step(P) IN IF Q = P THEN P ELSE Closure(Q)
MaxCov == IF Len(InitSeqs) = 0 THEN 0
          ELSE LET C == {Cov(InitSeqs[i]) : i \in 1..Len(InitSeqs)} IN CHOOSE c \in C : \A d \in C : d <= c
Admitted == {InitSeqs[i] : i \in {j \in 1..Len(InitSeqs) : Cov(InitSeqs[j]) * RelDen >= MaxCov * RelNum}}
Derivable == Closure(Admitted)
Reduced(p) == \A x \in Applicable(p) : x[1].rhs = "FAIL"
ValuesOf(P) == {p[i].a : <<p, i>> \in {<<p, i>> \in P \X (1..8) : i <= Len(p) /\ ~p[i].tok}}
OutVals == {out[i].val : i \in 1..Len(out)}

\* ---- properties ---------------------------------------------------------------------------------
TypeOK == pc \in {"init", "loop", "expand", "emit", "done"}
\* C15 soundness: whatever is streamed is a value of a derivable production
Sound == OutVals \subseteq ValuesOf(Derivable)
\* C15 completeness (no depth limit, no timeout): at the end every value of every fully reduced
\* derivable production has been streamed
Complete == (pc = "done" /\ ~timedOut /\ Depth = 0) => ValuesOf({p \in Derivable : Reduced(p)}) \subseteq OutVals
\* C14: a value is streamed a second time only with a strictly higher score
StrictlyBetter == \A i, j \in 1..Len(out) : (i < j /\ out[i].val = out[j].val) => out[i].score < out[j].score
\* the depth limit is respected whenever the loop is entered
DepthOK == (Depth > 0 /\ pc = "loop") => Cardinality(stack) <= Depth
\* C13: work between two deadline checks is bounded by the size of ONE production's expansion -
\* the bound does not mention the number of candidate sequences
MaxProdLen == IF Len(InitSeqs) = 0 THEN 0
              ELSE LET L == {Len(InitSeqs[i]) : i \in 1..Len(InitSeqs)} IN CHOOSE c \in L : \A d \in L : d <= c
WorkBound == 2 * Cardinality(Rewrites) * MaxProdLen + MaxProdLen + 2
BoundedWork == maxWork <= WorkBound
\* C13: nothing is produced after the run noticed the deadline; an expired run ends without error
Terminates == <>(pc = "done")
NoTimeoutWithoutDeadline == ~CanExpire => ~timedOut
=============================================================================
