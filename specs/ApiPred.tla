------------------------------- MODULE ApiPred -------------------------------
(* Predicates of Api.tla on observed candidates (no state): shared by the design module Api and
   the trace module ApiTrace. *)
EXTENDS Integers, Sequences
\* ---- predicate for observations of the real pair of entry points (used by ApiTrace) -------------
Same(a, b) == a.val = b.val /\ a.prod = b.prod /\ a.rank = b.rank /\ a.subj = b.subj /\ a.labels = b.labels
ResultOK(single, str) ==
  /\ (single.val.k = "F") <=> (str = <<>>)
  /\ single.val.k # "F" => /\ \E i \in 1..Len(str) : Same(single, str[i])
                           /\ \A i \in 1..Len(str) : str[i].rank <= single.rank
StrictlyBetterStream(str) ==
  \A i, j \in 1..Len(str) : (i < j /\ str[i].val = str[j].val) => str[i].rank < str[j].rank
AllFinite(str) == \A i \in 1..Len(str) : str[i].fin = 1
=============================================================================
