SPECIFICATION Spec
CONSTANTS
  InitSeqs <- I3_Init
  Rewrites <- I3_Rules
  RuleOrder <- I3_Order
  Depth = 0
  Scores <- S01
  CanExpire = FALSE
  RelNum = 1
  RelDen = 1
PROPERTY Refines
INVARIANT AbsSound
INVARIANT AbsComplete
CHECK_DEADLOCK FALSE
