---------------------------- MODULE MC_Calendar -----------------------------
(* Exhaustive sweep of the calendar lemmas over the 28-year cycle 2016..2043 *)
(* (and a margin on both sides): one state per day.                          *)
EXTENDS Calendar, TLC
CONSTANTS FirstDay, LastDay
VARIABLE n
\* MC_Calendar_400.cfg: one full 400-year Gregorian cycle 1900-01-01 .. 2300-01-01 (146 097 days): the civil-date algorithm
\* is periodic in eras of 400 years, so the lemmas then hold for every day
FirstDay400 == -25567
\* one initial state per day (a wide, shallow state space: TLC's per-level cost makes a
\* 47k-deep chain 20x slower than 47k initial states)
Init == n \in FirstDay..LastDay
Next == UNCHANGED n
Spec == Init /\ [][Next]_n
c == CivilFromDays(n)
RoundTrip == DaysFromCivil(c.y, c.m, c.d) = n /\ ValidDate(c.y, c.m, c.d)
Succ == LET c2 == CivilFromDays(n + 1) IN
          IF c.d < DIM(c.y, c.m) THEN c2 = [y |-> c.y, m |-> c.m, d |-> c.d + 1]
          ELSE IF c.m < 12 THEN c2 = [y |-> c.y, m |-> c.m + 1, d |-> 1]
          ELSE c2 = [y |-> c.y + 1, m |-> 1, d |-> 1]
WeekPeriod == WeekdayOfDays(n + 7) = WeekdayOfDays(n) /\ WeekdayOfDays(n + 1) = (WeekdayOfDays(n) + 1) % 7
Idioms == LET ts == MkTs(c.y, c.m, c.d, 12, 43) IN
   /\ AddDays(ts, 0) = ts
   /\ Days(AddMonths(ts, 1)) > n /\ AddMonths(ts, 1).d <= c.d
   /\ \A w \in 0..6 : LET r == NextWeekdayOnOrAfter(ts, w) IN Weekday(r) = w /\ Days(r) - n \in 0..6
   /\ Days(AddDays(LastOfMonth(ts), 1)) = Days(AddMonths(MkTs(c.y, c.m, 1, 12, 43), 1))
   /\ FromAbsMin(AbsMin(ts)) = ts
=============================================================================
