---------------------------- MODULE MC_SearchImpl ----------------------------
(* Small ground rewrite systems for exhaustive checking of SearchImpl: every scorer (scores   *)
(* picked per call from Scores), every expiry point, depth limits 0/1/2.                       *)
EXTENDS SearchImpl

Tk(a, s, e) == [a |-> a, s |-> s, e |-> e, tok |-> TRUE]
RW(r, l, h) == [rule |-> r, lhs |-> l, rhs |-> h]

\* I1: one position, two readings that meet in the same value; a unary chain; a declining rule
I1_Init == << <<Tk("t1", 0, 2)>>, <<Tk("t2", 0, 2)>> >>
I1_Rules == {RW("r1", <<"t1">>, "A"), RW("r2", <<"t2">>, "A"), RW("r3", <<"A">>, "B"), RW("rF", <<"A">>, "FAIL")}
I1_Order == <<"r1", "r2", "r3", "rF">>

\* I2: two positions, the first ambiguous; a binary rule; an absorbing rule (returns its argument's value)
I2_Init == << <<Tk("ta", 0, 2), Tk("tb", 3, 5)>>, <<Tk("tx", 0, 2), Tk("tb", 3, 5)>> >>
I2_Rules == {RW("ra", <<"ta">>, "A"), RW("rx", <<"tx">>, "A"), RW("rb", <<"tb">>, "B"),
             RW("rab", <<"A", "B">>, "C"), RW("rabs", <<"ta", "B">>, "B")}
I2_Order == <<"ra", "rx", "rb", "rab", "rabs">>

\* I3: candidate sequences of different coverage (relative_match_len filter), three sequences
I3_Init == << <<Tk("ta", 0, 2)>>, <<Tk("tl", 0, 5)>>, <<Tk("tb", 3, 5)>> >>
I3_Rules == {RW("ra", <<"ta">>, "A"), RW("rl", <<"tl">>, "L"), RW("rb", <<"tb">>, "B"), RW("rl2", <<"L">>, "A")}
I3_Order == <<"ra", "rl", "rb", "rl2">>

\* I4: many single-token sequences, one rule: the shape that breaks a work bound which ignores
\* the number of candidate sequences (C13)
I4_Init == << <<Tk("ta", 0, 1)>>, <<Tk("tb", 0, 1)>>, <<Tk("tc", 0, 1)>>, <<Tk("td", 0, 1)>>, <<Tk("te", 0, 1)>> >>
I4_Rules == {RW("ra", <<"ta">>, "A")}
I4_Order == <<"ra">>

S01 == {0, 1}
S012 == {0, 1, 2}
S0 == {0}
=============================================================================
