------------------------------- MODULE Sessions -------------------------------
(***************************************************************************)
(* C12: several suspended candidate streams (generator instances of        *)
(* ctparse_gen) in one process, stepped in any order, abandoned or killed  *)
(* by a failing scorer, next to the module-level state (rule registry,     *)
(* compiled patterns, shipped model).  In the DESIGN every stream has only *)
(* frame-local state, so each stream produces a prefix of what it produces *)
(* alone and the module-level state never changes.  TLC proves that on the *)
(* model and - its main use here - ENUMERATES every schedule (interleaving *)
(* of steps, with at most MaxAbandon abandonments and MaxCrash crashes);   *)
(* each complete schedule is printed as <<"SCHED", history>> and replayed  *)
(* by the harness on real generators.                                      *)
(***************************************************************************)
EXTENDS Integers, Sequences, FiniteSets, TLC

CONSTANTS NSess,        \* number of streams
          Steps,        \* Steps[i]: number of next() calls stream i needs to finish (candidates + 1)
          MaxAbandon, MaxCrash
VARIABLES pos, state, hist, globals
vars == <<pos, state, hist, globals>>

S == 1..NSess
Init == /\ pos = [i \in S |-> 0] /\ state = [i \in S |-> "open"] /\ hist = <<>> /\ globals = "G0"
Count(st) == Cardinality({i \in S : state[i] = st})

\* one next() on stream i: touches only i's frame
Step(i) == /\ state[i] = "open" /\ pos[i] < Steps[i]
           /\ pos' = [pos EXCEPT ![i] = @ + 1]
           /\ state' = [state EXCEPT ![i] = IF pos[i] + 1 = Steps[i] THEN "done" ELSE "open"]
           /\ hist' = Append(hist, <<"step", i>>)
           /\ UNCHANGED globals
\* the consumer drops the generator before it is exhausted
Abandon(i) == /\ state[i] = "open" /\ pos[i] > 0 /\ Count("abandoned") < MaxAbandon
              /\ state' = [state EXCEPT ![i] = "abandoned"]
              /\ hist' = Append(hist, <<"abandon", i>>)
              /\ UNCHANGED <<pos, globals>>
\* the scorer of stream i raises inside its next step: the exception surfaces in i's consumer only
Crash(i) == /\ state[i] = "open" /\ Count("crashed") < MaxCrash
            /\ state' = [state EXCEPT ![i] = "crashed"]
            /\ hist' = Append(hist, <<"crash", i>>)
            /\ UNCHANGED <<pos, globals>>
Next == \E i \in S : Step(i) \/ Abandon(i) \/ Crash(i)
Spec == Init /\ [][Next]_vars

Finished == \A i \in S : state[i] # "open"
\* every stream's output is the prefix of its solo output of length pos[i]; nothing global moves
PrefixOfSolo == \A i \in S : pos[i] \in 0..Steps[i]
GlobalsUntouched == globals = "G0"
\* schedule export (evaluated as an invariant: prints every complete schedule once)
Export == Finished => PrintT(<<"SCHED", hist>>)
=============================================================================
