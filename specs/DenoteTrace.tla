----------------------------- MODULE DenoteTrace -----------------------------
(***************************************************************************)
(* Judge of end-to-end observations of the real parser against the         *)
(* declarative denotation (Denote.tla).  One observation = one (or, for    *)
(* C20, three) call(s) of ctparse() on a text rendered from an abstract    *)
(* expression; the text itself never enters TLC, the expression does.      *)
(* Families (field `fam`):                                                 *)
(*   day      D ts val              val = DenoteDay(D, ts)      C03 C04 C05*)
(*   dayclock D C ts val            val = day at clock          C05        *)
(*   daypod   D pod ts val          val = day, part of day kept C04        *)
(*   clock    C ts latent val       C06                                    *)
(*   glue     D C ts vd vc vb       C20                                    *)
(*   crange   ctx D A B ts val      C07 (ctx = date | latent | bare)       *)
(*   drange   D1 D2 ts val          C07                                    *)
(*   halfopen side D C ts val       C07                                    *)
(*   dur      n u val               C08                                    *)
(*   fordur   D C n u ts val        C08                                    *)
(*   durrange n u D1 D2 ts val full C08                                    *)
(* Verdicts are total: every rejected observation prints                   *)
(* <<"REJECT", id, clause, expected>>.                                     *)
(***************************************************************************)
EXTENDS Denote, TLC, Json, IOUtils

Obs == ndJsonDeserialize(IOEnv.QA_OBS_FILE)
VARIABLE l

Reject(o, clause, detail) == PrintT(<<"REJECT", o.id, clause, ToString(detail)>>)
Expect(o, clause, cond, detail) == IF cond THEN TRUE ELSE Reject(o, clause, detail)

PointOf(D, C, ts) ==
  IF D.dk = "none" THEN DenoteClock(C)
  ELSE IF C.ck = "none" THEN DenoteDay(D, ts)
  ELSE Glue(DenoteDay(D, ts), DenoteClock(C))

Check(o) ==
  CASE o.fam = "day" ->
         \* a surface form that the frozen lexicon lists under two meanings (homograph, e.g.
         \* "morgen" = tomorrow | morning) carries the second reading in D2: either is accepted
         LET e == DenoteDay(o.D, o.ts)
             e2 == IF o.D2.dk = "none" THEN e ELSE DenoteDay(o.D2, o.ts) IN
         /\ Expect(o, "denote-day", o.val = e \/ o.val = e2, e)
         /\ (o.D.dk \in {"dow", "thisdow", "dom", "doy"} /\ o.D2.dk = "none" /\ IsTime(o.val) /\ FullyDated(o.val)) =>
               Expect(o, "nearest-future", NearestFuture(o.D, o.ts, o.val), e)
    [] o.fam = "daypod" ->
         \* <day> <part of day>: that day, the written part of day kept (no clock time invented)
         LET d == DenoteDay(o.D, o.ts)
             e == MkTime(d.y, d.m, d.d, X, X, X, o.pod) IN
         Expect(o, "denote-day-pod", o.val = e, e)
    [] o.fam = "dayclock" ->
         LET e == Glue(DenoteDay(o.D, o.ts), DenoteClock(o.C)) IN
         Expect(o, "denote-dayclock", IsTime(o.val) /\ o.val = [e EXCEPT !.M = o.val.M] /\ Nz(o.val.M, 0) = e.M, e)
    [] o.fam = "clock" ->
         IF o.latent = 1
         THEN LET e == DenoteClockLatent(o.C, o.ts) IN Expect(o, "clock-latent", o.val = e, e)
         ELSE LET e == DenoteClock(o.C) IN Expect(o, "clock", NormTOD(o.val) = e, e)
    [] o.fam = "glue" ->
         /\ Expect(o, "glue-day", o.vd = DenoteDay(o.D, o.ts), DenoteDay(o.D, o.ts))
         /\ Expect(o, "glue-clock", NormTOD(o.vc) = DenoteClock(o.C), DenoteClock(o.C))
         /\ Expect(o, "glue", GlueOK(o.vd, o.vc, o.vb), IF IsTime(o.vd) /\ IsTime(o.vc) THEN Glue(o.vd, o.vc) ELSE FAIL)
    [] o.fam = "crange" ->
         (CASE o.ctx = "date" -> Expect(o, "clock-range-on-date", ClockRangeOnDateOK(DenoteDay(o.D, o.ts), o.A, o.B, o.val), o.A)
            [] o.ctx = "latent" -> Expect(o, "clock-range-latent", ClockRangeLatentOK(o.ts, o.A, o.B, o.val), o.A)
            [] o.ctx = "bare" -> Expect(o, "clock-range-bare", ClockRangeBareOK(o.A, o.B, o.val), o.A))
    [] o.fam = "drange" ->
         LET d1 == DenoteDay(o.D1, o.ts)  d2 == DenoteDay(o.D2, o.ts)
             \* "5.3. - 8.3.2029": a start written without a year may take the year of the end (ruleDOYDate)
             \* when that is a calendar date before the end; the next-occurrence reading is the other denotation
             sameYear == o.D1.dk = "doy" /\ o.D2.dk = "date" /\ ValidDate(d2.y, o.D1.n2, o.D1.n1)
                         /\ DateLess(Date(d2.y, o.D1.n2, o.D1.n1), d2) IN
         Expect(o, "date-range",
                IF sameYear
                THEN \/ o.val = MkInterval(Date(d2.y, o.D1.n2, o.D1.n1), d2)
                     \/ DateLess(d1, d2) /\ o.val = MkInterval(d1, d2)
                ELSE DateRangeOK(d1, d2, o.val),
                MkInterval(d1, d2))
    [] o.fam = "halfopen" ->
         LET x == PointOf(o.D, o.C, o.ts) IN
         Expect(o, "half-open", IsInterval(o.val) /\
                  (IF o.side = "until" THEN o.val.f = NONE /\ NormTOD(o.val.t) = x
                                       ELSE o.val.t = NONE /\ NormTOD(o.val.f) = x), x)
    [] o.fam = "dur" -> Expect(o, "duration", o.val = DenoteDuration(o.n, o.u), DenoteDuration(o.n, o.u))
    [] o.fam = "fordur" ->
         LET s == PointOf(o.D, o.C, o.ts)
             e == MkInterval(s, EndAfter(s, o.n, o.u)) IN
         Expect(o, "for-duration", IsInterval(o.val) /\ o.val.f # NONE /\ o.val.t # NONE
                                   /\ [o.val.f EXCEPT !.M = Nz(@, 0)] = [s EXCEPT !.M = Nz(@, 0)]
                                   /\ o.val.t = e.t, e)
    [] o.fam = "durrange" ->
         LET d1 == DenoteDay(o.D1, o.ts)  d2 == DenoteDay(o.D2, o.ts)
             iv == MkInterval(d1, d2)
             isN == o.u \in {"days", "nights"} /\ Days(TsOfDate(d2)) - Days(TsOfDate(d1)) = o.n IN
         IF isN THEN Expect(o, "duration-range-accept", o.val = iv /\ o.full = 1, iv)
         ELSE Expect(o, "duration-range-reject", ~(o.val = iv /\ o.full = 1), iv)

ASSUME TLCSet(7, Obs)
Init == LET O == TLCGet(7) IN l \in 1..Len(O) /\ Check(O[l])
Next == UNCHANGED l
Spec == Init /\ [][Next]_l
=============================================================================
