------------------------------ MODULE NaiveBayes ------------------------------
(***************************************************************************)
(* The integer part of Laplace-smoothed multinomial naive Bayes over all   *)
(* 1- to 3-grams of a token sequence (C16): n-gram windows, vocabulary,    *)
(* per-class feature counts and token totals, class counts.  Logarithms    *)
(* are outside TLA+; the harness turns these sufficient statistics into    *)
(* log-probabilities with the textbook formula                             *)
(*   log P(c) + SUM_f count_query(f) * log((N_c(f) + 1) / (T_c + V))       *)
(* and compares with the implementation.                                   *)
(***************************************************************************)
EXTENDS Integers, Sequences, FiniteSets, FiniteSetsExt, TLC

MaxN == 3
Grams(doc) == {SubSeq(doc, i, i + n - 1) : <<i, n>> \in {<<i, n>> \in (1..Len(doc)) \X (1..MaxN) : i + n - 1 <= Len(doc)}}
CountIn(f, doc) == Cardinality({i \in 1..Len(doc) : i + Len(f) - 1 <= Len(doc) /\ SubSeq(doc, i, i + Len(f) - 1) = f})
NumGrams(doc) == LET L == Len(doc) IN (IF L >= 1 THEN L ELSE 0) + (IF L >= 2 THEN L - 1 ELSE 0) + (IF L >= 3 THEN L - 2 ELSE 0)
SumOver(S, F(_)) == FoldSet(LAMBDA x, acc : acc + F(x), 0, S)

Vocab(docs) == UNION {Grams(docs[i]) : i \in 1..Len(docs)}
ClassDocs(docs, labels, c) == {i \in 1..Len(docs) : labels[i] = c}
FeatureCount(docs, labels, c, f) == LET D == ClassDocs(docs, labels, c) IN SumOver(D, LAMBDA i : CountIn(f, docs[i]))
TokenTotal(docs, labels, c) == LET D == ClassDocs(docs, labels, c) IN SumOver(D, LAMBDA i : NumGrams(docs[i]))

\* statistics for one query document, flattened: <<count in query, N_pos(f), N_neg(f)>> per known n-gram
RECURSIVE Flatten(_, _, _, _)
Flatten(F, docs, labels, q) ==
  IF F = {} THEN <<>>
  ELSE LET f == CHOOSE x \in F : TRUE IN
       <<CountIn(f, q), FeatureCount(docs, labels, 1, f), FeatureCount(docs, labels, 0, f)>> \o Flatten(F \ {f}, docs, labels, q)
Stats(docs, labels, q) ==
  <<Cardinality(ClassDocs(docs, labels, 1)), Cardinality(ClassDocs(docs, labels, 0)), Cardinality(Vocab(docs)),
    TokenTotal(docs, labels, 1), TokenTotal(docs, labels, 0), Flatten(Grams(q) \cap Vocab(docs), docs, labels, q)>>

\* ---- model: every corpus over a 2-token alphabet, <= 3 documents of <= 3 tokens, both classes --------------
CONSTANTS Alphabet, MaxDocs, MaxLen
VARIABLES docs, labels
Docs == UNION {[1..n -> Alphabet] : n \in 1..MaxLen}
Init == \E n \in 2..MaxDocs : docs \in [1..n -> Docs] /\ labels \in [1..n -> {0, 1}]
Next == UNCHANGED <<docs, labels>>
Spec == Init /\ [][Next]_<<docs, labels>>
WindowCount == \A i \in 1..Len(docs) : SumOver(Grams(docs[i]), LAMBDA f : CountIn(f, docs[i])) = NumGrams(docs[i])
TotalsAreSums == \A c \in {0, 1} : SumOver(Vocab(docs), LAMBDA f : FeatureCount(docs, labels, c, f)) = TokenTotal(docs, labels, c)
QueryOfTrainingDocIsKnown == \A i \in 1..Len(docs) : Grams(docs[i]) \subseteq Vocab(docs)
=============================================================================
