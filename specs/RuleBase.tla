------------------------------- MODULE RuleBase -------------------------------
(***************************************************************************)
(* C19: structural soundness of the rule base and agreement of the shipped *)
(* model with it.  The registry of the tree under test, the list of        *)
(* @rule-decorated definitions in the syntax tree of the rule module, the  *)
(* pattern table, probe results and the model vocabulary enter as one      *)
(* observation; the frozen RuleTable.tla is the reference for identifiers. *)
(***************************************************************************)
EXTENDS Integers, Sequences, FiniteSets, TLC, RuleTable, Json, IOUtils

Obs == ndJsonDeserialize(IOEnv.QA_OBS_FILE)
VARIABLE l
ToSet(s) == {s[i] : i \in 1..Len(s)}
Reject(o, clause, detail) == PrintT(<<"REJECT", o.id, clause, ToString(detail)>>)
Expect(o, clause, cond, detail) == IF cond THEN TRUE ELSE Reject(o, clause, detail)
NoDup(s) == Cardinality(ToSet(s)) = Len(s)
\* which rule reads pattern id i, in a pattern table
Readers(tab, names, i) == {n \in names : \E j \in 1..Len(tab[n]) : tab[n][j].t = "R" /\ tab[n][j].id = i}

Check(o) ==
  LET names == ToSet(o.reg_names)
      pats == [n \in names |-> o.patterns[CHOOSE k \in 1..Len(o.reg_names) : o.reg_names[k] = n]]
      ids == {o.regex[i].id : i \in 1..Len(o.regex)}
      texts == {o.regex[i].text_id : i \in 1..Len(o.regex)} IN
  \* every definition of the rule module is registered under a unique name (a second definition with
  \* the same function name silently replaces the first in the registry)
  /\ Expect(o, "definition-not-registered-or-replaced", o.ast_names = o.reg_names /\ NoDup(o.ast_names), o.ast_names)
  /\ Expect(o, "two-adjacent-patterns", \A n \in names : \A j \in 1..(Len(pats[n]) - 1) : ~(pats[n][j].t = "R" /\ pats[n][j + 1].t = "R"), 0)
  /\ Expect(o, "same-text-different-id", Cardinality(ids) = Len(o.regex) /\ Cardinality(texts) = Len(o.regex), Len(o.regex))
  /\ Expect(o, "pattern-matches-empty-string", o.empty_match = <<>>, o.empty_match)
  /\ Expect(o, "zero-length-match", o.zero_len = <<>>, o.zero_len)
  /\ Expect(o, "rule-cannot-fire", names \subseteq ToSet(o.fired), names \ ToSet(o.fired))
  /\ Expect(o, "pattern-of-a-rule-unregistered", \A n \in names : \A j \in 1..Len(pats[n]) : pats[n][j].t = "R" => pats[n][j].id \in ids, 0)
  \* the model's features are pattern identifiers and rule names
  /\ Expect(o, "model-token-unknown", ToSet(o.vocab) \subseteq ToSet(o.reg_names_set_str), ToSet(o.vocab) \ ToSet(o.reg_names_set_str))
  \* identifiers are allocation-order dependent and ARE the model's features: the pattern a shipped
  \* identifier stands for must still be read by the same rule(s)
  /\ Expect(o, "pattern-ids-shifted-against-the-model",
            \A i \in PatternIds : Readers(pats, names, i) \cap DOMAIN RulePat = Readers(RulePat, DOMAIN RulePat, i) \cap names,
            {i \in PatternIds : Readers(pats, names, i) \cap DOMAIN RulePat # Readers(RulePat, DOMAIN RulePat, i) \cap names})
ASSUME TLCSet(7, Obs)
Init == LET O == TLCGet(7) IN l \in 1..Len(O) /\ Check(O[l])
Next == UNCHANGED l
Spec == Init /\ [][Next]_l
=============================================================================
