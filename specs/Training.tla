------------------------------- MODULE Training -------------------------------
(* C17: the training data the dataset builders must emit for one entry: for every candidate of the  *)
(* stream, one sample per non-empty prefix of its production trace, all labelled by whether the      *)
(* candidate's resolution denotes the same value as the gold annotation (Values.tla equality:        *)
(* independent of character spans).                                                                  *)
EXTENDS Values, TLC
RECURSIVE SamplesOf(_, _, _)
SamplesOf(cands, gold, k) ==
  IF k > Len(cands) THEN <<>>
  ELSE LET c == cands[k]  y == IF c.val = gold THEN 1 ELSE 0 IN
       [i \in 1..Len(c.prod) |-> [X |-> SubSeq(c.prod, 1, i), y |-> y]] \o SamplesOf(cands, gold, k + 1)
Samples(cands, gold) == SamplesOf(cands, gold, 1)
=============================================================================
