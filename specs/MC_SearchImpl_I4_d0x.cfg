SPECIFICATION Spec
CONSTANTS
  InitSeqs <- I4_Init
  Rewrites <- I4_Rules
  RuleOrder <- I4_Order
  Depth = 0
  Scores <- S0
  CanExpire = TRUE
  RelNum = 1
  RelDen = 1
INVARIANT TypeOK
INVARIANT Sound
INVARIANT Complete
INVARIANT StrictlyBetter
INVARIANT DepthOK
INVARIANT BoundedWork
INVARIANT NoTimeoutWithoutDeadline
PROPERTY Terminates
CHECK_DEADLOCK FALSE
