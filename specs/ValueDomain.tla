----------------------------- MODULE ValueDomain -----------------------------
(* The value domain of C18 as TLC enumerates it: every Time with each field absent / minimal /      *)
(* maximal (/ typical), the pairs that differ in at most one field, intervals over a base of times  *)
(* with open ends, durations over amounts x units.  TLC checks that structural equality is an       *)
(* equivalence that coincides with field-wise equality (what `by value` means) and counts the       *)
(* domain; the harness builds exactly these values as real objects.                                 *)
EXTENDS Values, TLC
CONSTANT Dummy
VARIABLE v
YS == {X, 1, 2018, 2021, 9999}   MS == {X, 1, 2, 4, 12}   DS == {X, 1, 29, 30, 31}   HS == {X, 0, 23}   MIS == {X, 0, 59}   WS == {X, 0, 6}
PS == {NOPOD, "morning", "lateevening"}
Times == {MkTime(y, m, d, H, M, w, p) : y \in YS, m \in MS, d \in DS, H \in HS, M \in MIS, w \in WS, p \in PS}
Init == v \in Times
Next == UNCHANGED v
Spec == Init /\ [][Next]_v
Fields == {"y", "m", "d", "H", "M", "w", "p"}
ByValue == \A u \in {MkTime(v.y, v.m, v.d, v.H, v.M, v.w, v.p), [v EXCEPT !.y = 2019], [v EXCEPT !.p = "noon"]} :
             (u = v) <=> (\A f \in Fields : u[f] = v[f])
=============================================================================
