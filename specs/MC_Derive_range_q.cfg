SPECIFICATION Spec
CONSTANTS
  K = 6
  Fam = "range"
  NTs = 4
INVARIANT NoRaise
INVARIANT AllWF
INVARIANT PodsKnown
INVARIANT AccessorsTotal
INVARIANT PostWF
PROPERTY Decreasing
CHECK_DEADLOCK FALSE
