SPECIFICATION TSpec
CONSTANTS
  Alphabet = {"a"}
  MaxDocs = 2
  MaxLen = 1
CHECK_DEADLOCK FALSE
