--------------------------------- MODULE Api ---------------------------------
(***************************************************************************)
(* The public single-result call (ctparse.py:68-124) as a state machine    *)
(* over an arbitrary candidate stream:                                     *)
(*   Consume   take the next candidate of the stream (post-processed)      *)
(*   Pick      stream exhausted: sort by score, take the last / build the  *)
(*             empty result when nothing was streamed                      *)
(* and the predicate ResultOK that the trace module ApiTrace evaluates on  *)
(* observations of the real ctparse() / ctparse_gen() pair (C14).          *)
(* A candidate is [val, prod, rank, fin, subj, labels]; rank is the        *)
(* position of its score in the ascending order of the distinct scores of  *)
(* the observation (an order-preserving projection of floats to integers), *)
(* fin = 1 iff the float is finite.                                        *)
(***************************************************************************)
EXTENDS Integers, Sequences, FiniteSets, TLC, ApiPred

CONSTANTS Vals, Ranks, MaxLen
VARIABLES stream, got, result, pc
vars == <<stream, got, result, pc>>

EMPTY == [val |-> "none", rank |-> -1]
Cand == [val : Vals, rank : Ranks]

Init == /\ stream \in UNION {[1..n -> Cand] : n \in 0..MaxLen}
        /\ got = <<>> /\ result = EMPTY /\ pc = "consume"
Consume == /\ pc = "consume" /\ Len(got) < Len(stream)
           /\ got' = Append(got, stream[Len(got) + 1])
           /\ UNCHANGED <<stream, result, pc>>
IsBest(c, S) == \A i \in 1..Len(S) : S[i].rank <= c.rank
\* sort(key=score) is stable: the last of the maximal ones is returned; the specification allows any maximal one
Pick == /\ pc = "consume" /\ Len(got) = Len(stream)
        /\ IF got = <<>> THEN result' = EMPTY
           ELSE \E i \in 1..Len(got) : IsBest(got[i], got) /\ result' = got[i]
        /\ pc' = "done"
        /\ UNCHANGED <<stream, got>>
Next == Consume \/ Pick
Spec == Init /\ [][Next]_vars /\ WF_vars(Next)

BestReturned == pc = "done" =>
  /\ (result = EMPTY) <=> (stream = <<>>)
  /\ result # EMPTY => (\E i \in 1..Len(stream) : stream[i] = result) /\ IsBest(result, stream)
Terminates == <>(pc = "done")

=============================================================================
