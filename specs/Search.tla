-------------------------------- MODULE Search --------------------------------
(***************************************************************************)
(* The ABSTRACT worklist search the property C15 talks about, for an       *)
(* arbitrary ground rewrite system: no scores, no order, no dedup tables.  *)
(*   frontier  productions still to be expanded                            *)
(*   seen      productions ever put on the frontier                        *)
(*   emitted   values streamed so far                                      *)
(* AddSucc discovers one successor of any seen production; Retire takes    *)
(* ANY production off the frontier once all its successors have been seen  *)
(* and emits its values if it is fully reduced.                            *)
(* This is deliberately order-agnostic ("whichever scorer orders the       *)
(* search"): a property-preserving change of strategy refines it too.      *)
(* MC_SearchRefine checks that SearchImpl (the code-shaped specification,  *)
(* depth limit 0, no deadline) implements this module under the mapping    *)
(* given there.                                                            *)
(***************************************************************************)
EXTENDS Integers, Sequences, FiniteSets

CONSTANTS ARewrites, AInit        \* rewrite rules [rule, lhs, rhs] and the set of admitted candidate sequences
VARIABLES frontier, seen, emitted
avars == <<frontier, seen, emitted>>

AApplicable(prod) ==
  {<<rw, i>> \in ARewrites \X (1..Len(prod)) :
      /\ i + Len(rw.lhs) - 1 <= Len(prod)
      /\ \A j \in 1..Len(rw.lhs) : prod[i + j - 1].a = rw.lhs[j]}
AApply(prod, rw, i) ==
  LET n == Len(rw.lhs)
      v == [a |-> rw.rhs, s |-> prod[i].s, e |-> prod[i + n - 1].e, tok |-> FALSE]
  IN SubSeq(prod, 1, i - 1) \o <<v>> \o SubSeq(prod, i + n, Len(prod))
\* productions are identified up to the spans of their values (what the dedup table of the code sees)
AKey(prod) == [i \in 1..Len(prod) |-> IF prod[i].tok THEN prod[i] ELSE [a |-> prod[i].a]]
ASuccs(p) == {AApply(p, x[1], x[2]) : x \in {y \in AApplicable(p) : y[1].rhs # "FAIL"}}
AValues(p) == {p[i].a : i \in {j \in 1..Len(p) : ~p[j].tok}}

AInitPred == frontier = {AKey(q) : q \in AInit} /\ seen = {AKey(q) : q \in AInit} /\ emitted = {}

\* the abstract step works on keys; Rep(k) is any production with that key (successors only depend on the key)
Rep(k) == [i \in 1..Len(k) |-> IF "tok" \in DOMAIN k[i] THEN k[i] ELSE [a |-> k[i].a, s |-> 0, e |-> 0, tok |-> FALSE]]
KeySuccs(k) == {AKey(q) : q \in ASuccs(Rep(k))}
KeyValues(k) == {k[i].a : i \in {j \in 1..Len(k) : "tok" \notin DOMAIN k[j]}}

\* one successor of a production that has been seen is discovered
AddSucc(k, q) == /\ k \in seen /\ q \in KeySuccs(k)
                 /\ frontier' = frontier \cup {q} /\ seen' = seen \cup {q}
                 /\ UNCHANGED emitted
\* a production leaves the frontier only when every successor of it has been seen; its values are
\* emitted if it is fully reduced (and may be emitted if all its successors were known already)
Retire(k) == /\ k \in frontier /\ KeySuccs(k) \subseteq seen
             /\ frontier' \in {frontier \ {k}, frontier}
             /\ emitted' \in {emitted, emitted \cup KeyValues(k)}
             /\ KeySuccs(k) = {} => emitted' = emitted \cup KeyValues(k)
             /\ UNCHANGED seen
ANext == \E k \in seen : Retire(k) \/ \E q \in KeySuccs(k) : AddSucc(k, q)
ASpec == AInitPred /\ [][ANext]_avars

\* ---- what the abstract search guarantees --------------------------------------------------------
RECURSIVE KeyClosure(_)
KeyClosure(K) == LET Q == K \cup UNION {KeySuccs(k) : k \in K} IN IF Q = K THEN K ELSE KeyClosure(Q)
ADerivable == KeyClosure({AKey(q) : q \in AInit})
ASound == emitted \subseteq UNION {KeyValues(k) : k \in ADerivable} /\ seen \subseteq ADerivable
AComplete == frontier = {} => UNION {KeyValues(k) : k \in {x \in ADerivable : KeySuccs(x) = {}}} \subseteq emitted
=============================================================================
