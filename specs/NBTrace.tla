------------------------------- MODULE NBTrace -------------------------------
(* For every observation (training documents, labels, query document) TLC computes the sufficient   *)
(* statistics of NaiveBayes.tla and prints them: <<"NB", id, nPos, nNeg, V, Tpos, Tneg, flat>>.     *)
EXTENDS NaiveBayes, Json, IOUtils
Obs == ndJsonDeserialize(IOEnv.QA_OBS_FILE)
VARIABLE l
Emit(o) == LET s == Stats(o.docs, o.labels, o.query) IN PrintT(<<"NB", o.id, s[1], s[2], s[3], s[4], s[5], s[6]>>)
ASSUME TLCSet(7, Obs)
TInit == LET O == TLCGet(7) IN l \in 1..Len(O) /\ Emit(O[l]) /\ docs = <<>> /\ labels = <<>>
TNext == UNCHANGED <<l, docs, labels>>
TSpec == TInit /\ [][TNext]_<<l, docs, labels>>
=============================================================================
