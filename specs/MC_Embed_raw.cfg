SPECIFICATION Spec
CONSTANTS
  Mode = "raw"
  L = 4
  P = 3
INVARIANT EmbedInvariant
CHECK_DEADLOCK FALSE
