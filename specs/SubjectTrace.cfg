SPECIFICATION TSpec
CONSTANTS
  MaxItems = 0
CHECK_DEADLOCK FALSE
