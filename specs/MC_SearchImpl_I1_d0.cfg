SPECIFICATION Spec
CONSTANTS
  InitSeqs <- I1_Init
  Rewrites <- I1_Rules
  RuleOrder <- I1_Order
  Depth = 0
  Scores <- S01
  CanExpire = FALSE
  RelNum = 1
  RelDen = 1
INVARIANT TypeOK
INVARIANT Sound
INVARIANT Complete
INVARIANT StrictlyBetter
INVARIANT DepthOK
INVARIANT BoundedWork
INVARIANT NoTimeoutWithoutDeadline
PROPERTY Terminates
CHECK_DEADLOCK FALSE
