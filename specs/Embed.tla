-------------------------------- MODULE Embed --------------------------------
(***************************************************************************)
(* C09 at model level.  An expression occupies character positions 0..L-1; *)
(* its pattern matches are drawn from a small universe in which a pattern  *)
(* may end in optional whitespace (flag ws).  Embedding puts an inert word *)
(* in front (shift by P) and/or behind (a blank + word follow position L). *)
(*   Mode = "trimmed": a match span never includes trailing blanks         *)
(*                     (intended; the code since the fix)                  *)
(*   Mode = "raw":     a ws-pattern directly followed by a blank extends   *)
(*                     over that blank (the pinned code)                   *)
(* Invariant: the admitted candidate sequences of the embedded text are    *)
(* the shifted admitted sequences of the bare text - so whatever the       *)
(* search makes of them is the same, and every span is the bare span       *)
(* shifted.  With Mode = "raw" TLC finds the eviction the property text    *)
(* describes (a match one blank longer wins the coverage filter).          *)
(***************************************************************************)
EXTENDS Lattice

CONSTANTS Mode, L, P
VARIABLES ms, bl, suffix
vars == <<ms, bl, suffix>>

\* universe of matches of the bare expression: spans inside 0..L, some with the ws flag
Spans == {<<s, e>> \in (0..L) \X (0..L) : s < e}
Universe == {[id |-> i, s |-> sp[1], e |-> sp[2], ws |-> w] : i \in {1, 2}, sp \in Spans, w \in {TRUE, FALSE}}

Init == /\ bl \in SUBSET (1..(L - 2))                   \* blanks strictly inside the expression
        /\ \E a, b, c \in {m \in Universe : m.s \notin bl /\ (m.e - 1) \notin bl} :   \* a match neither starts nor ends on a blank
              ms = {a, b, c}                                                   \* 1 to 3 matches
        /\ suffix \in {TRUE, FALSE}
Next == UNCHANGED vars
Spec == Init /\ [][Next]_vars

Plain(m) == [id |-> m.id, s |-> m.s, e |-> m.e]
\* the span the engine sees for match m when the text continues with blank(s) at positions B
Seen(m, B) == IF Mode = "raw" /\ m.ws /\ m.e \in B THEN [id |-> m.id, s |-> m.s, e |-> m.e + 1] ELSE Plain(m)
BareMatches == {Seen(m, bl) : m \in ms}
\* embedded: shifted by P; a blank precedes the expression (if P > 0) and follows it (if suffix)
EmbBlanks == {b + P : b \in bl} \cup (IF P > 0 THEN {P - 1} ELSE {}) \cup (IF suffix THEN {L + P} ELSE {})
EmbMatches == {ShiftM(Seen(m, bl \cup (IF suffix THEN {L} ELSE {})), P) : m \in ms}

EmbedInvariant ==
  AdmittedSeqs(EmbMatches, EmbBlanks, 1, 1) = {ShiftSeq(q, P) : q \in AdmittedSeqs(BareMatches, bl, 1, 1)}
=============================================================================
