SPECIFICATION Spec
CONSTANTS
  Mode = "C06q"
  FirstDay = 18260
  LastDay = 18262
  DayStep = 1
  Minutes <- AllMinutes
INVARIANT Inv
CHECK_DEADLOCK FALSE
