------------------------------- MODULE Lattice -------------------------------
(***************************************************************************)
(* From pattern matches to candidate sequences (ctparse.py: _regex_stack,  *)
(* lines 361-459, and the coverage filter, lines 198-213).                 *)
(*   a match is [id, s, e]: pattern id and character span [s, e)           *)
(*   Gap(m1, m2): m2 starts at or after the end of m1 and only blanks lie  *)
(*                between them                                             *)
(*   candidate sequences = maximal paths of the Gap relation that start at *)
(*   a match without predecessor                                           *)
(*   admitted = those whose covered length reaches the maximum (times the  *)
(*   relative_match_len fraction)                                          *)
(***************************************************************************)
EXTENDS Integers, Sequences, FiniteSets, TLC

\* blanks: set of text positions holding a blank
Follows(m1, m2, blanks) == m2.s >= m1.e /\ \A p \in m1.e..(m2.s - 1) : p \in blanks
HasPred(m, M, blanks) == \E x \in M : x # m /\ Follows(x, m, blanks) /\ ~(x.s = m.s /\ x.e = m.e /\ x.id >= m.id /\ FALSE)
Succs(m, M, blanks) == {x \in M : x # m /\ Follows(m, x, blanks)}

RECURSIVE PathsFrom(_, _, _)
PathsFrom(m, M, blanks) ==
  LET S == Succs(m, M, blanks) IN
  IF S = {} THEN {<<m>>}
  ELSE UNION {{<<m>> \o p : p \in PathsFrom(x, M, blanks)} : x \in S}
CandidateSeqs(M, blanks) == UNION {PathsFrom(m, M, blanks) : m \in {x \in M : ~\E y \in M : y # x /\ Follows(y, x, blanks)}}
CovOf(seq) == seq[Len(seq)].e - seq[1].s
MaxCovOf(SS) == IF SS = {} THEN 0 ELSE LET C == {CovOf(q) : q \in SS} IN CHOOSE c \in C : \A d \in C : d <= c
AdmittedSeqs(M, blanks, relNum, relDen) ==
  LET SS == CandidateSeqs(M, blanks) IN {q \in SS : CovOf(q) * relDen >= MaxCovOf(SS) * relNum}
ShiftM(m, k) == [id |-> m.id, s |-> m.s + k, e |-> m.e + k]
ShiftSeq(q, k) == [i \in 1..Len(q) |-> ShiftM(q[i], k)]
=============================================================================
