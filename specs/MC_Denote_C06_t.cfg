SPECIFICATION Spec
CONSTANTS
  Mode = "C06"
  FirstDay = 18319
  LastDay = 18322
  DayStep = 1
  Minutes <- AllMinutes
INVARIANT Inv
CHECK_DEADLOCK FALSE
