SPECIFICATION Spec
CONSTANTS
  NSess = 2
  Steps <- St2b
  MaxAbandon = 1
  MaxCrash = 0
INVARIANT PrefixOfSolo
INVARIANT GlobalsUntouched
INVARIANT Export
CHECK_DEADLOCK FALSE
