SPECIFICATION Spec
CONSTANTS
  FirstDay <- FirstDay400
  LastDay = 120530
INVARIANT RoundTrip
INVARIANT Succ
INVARIANT WeekPeriod
INVARIANT Idioms
CHECK_DEADLOCK FALSE
