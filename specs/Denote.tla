------------------------------- MODULE Denote -------------------------------
(***************************************************************************)
(* Declarative denotation of the specification grammar, written from the   *)
(* property texts (C03-C08, C20), independently of Rules.tla:              *)
(*   "first X strictly after today", "first X on or after today + 7",      *)
(*   "nearest future date with that day", "12 am is midnight", ...         *)
(*                                                                         *)
(* Abstract syntax (records; absent = X / "X"):                            *)
(*   Day   [dk, n1, n2, n3, s]                                             *)
(*         dk = "rel"     n1 = offset in days (today 0, tomorrow 1, ...)   *)
(*              "now" | "eom" | "eoy"                                      *)
(*              "dow"     bare weekday n1         (first strictly after)   *)
(*              "thisdow" this/on/am <weekday n1> (first strictly after)   *)
(*              "nextdow" next <weekday> / <weekday> next week             *)
(*              "dom"     day of month n1                                  *)
(*              "doy"     day n1 + month n2                                *)
(*              "date"    day n1 month n2 year n3                          *)
(*              "pod"     part of day s                                    *)
(*              "none"                                                     *)
(*   Clock [ck, h, mi]   ck = "hm" (24h hour and minute) | "none"          *)
(*   Dur   [n, u]                                                          *)
(***************************************************************************)
EXTENDS Rules

Least(S) == CHOOSE x \in S : \A y \in S : x <= y
DateOfDays(n) == LET c == CivilFromDays(n) IN Date(c.y, c.m, c.d)

\* ---- days (C03, C04, C05) --------------------------------------------------
DayDefined(D) ==
  CASE D.dk = "doy" -> ValidDOY(D.n2, D.n1)
    [] D.dk = "date" -> ValidDate(D.n3, D.n2, D.n1)
    [] D.dk = "dom" -> D.n1 \in 1..31
    [] OTHER -> TRUE

DenoteDay(D, ts) ==
  LET today == Days(ts) IN
  CASE D.dk = "rel" -> DateOfDays(today + D.n1)
    [] D.dk = "now" -> DateTime(ts.y, ts.m, ts.d, ts.H, ts.M)
    [] D.dk = "eom" -> Date(ts.y, ts.m, DIM(ts.y, ts.m))
    [] D.dk = "eoy" -> Date(ts.y, 12, 31)
    [] D.dk \in {"dow", "thisdow"} ->
         DateOfDays(Least({n \in (today + 1)..(today + 7) : WeekdayOfDays(n) = D.n1}))
    [] D.dk = "nextdow" ->
         DateOfDays(Least({n \in (today + 7)..(today + 13) : WeekdayOfDays(n) = D.n1}))
    [] D.dk = "dom" ->
         DateOfDays(Least({n \in (today + 1)..(today + 62) : CivilFromDays(n).d = D.n1}))
    [] D.dk = "doy" ->
         LET y == Least({yy \in ts.y..(ts.y + 8) :
                          ValidDate(yy, D.n2, D.n1) /\ DaysFromCivil(yy, D.n2, D.n1) >= today})
         IN Date(y, D.n2, D.n1)
    [] D.dk = "date" -> Date(D.n3, D.n2, D.n1)
    [] D.dk = "pod" ->
         LET n == IF ts.H * 60 + ts.M < PodH0(D.s) * 60 THEN today ELSE today + 1
             c == CivilFromDays(n)
         IN MkTime(c.y, c.m, c.d, X, X, X, D.s)

\* C04 as a predicate on any claimed result r (a dated Time): never before today, written
\* fields preserved, nothing matching strictly between today and r
Matches(D, n) ==
  LET c == CivilFromDays(n) IN
  CASE D.dk \in {"dow", "thisdow"} -> WeekdayOfDays(n) = D.n1
    [] D.dk = "dom" -> c.d = D.n1
    [] D.dk = "doy" -> c.d = D.n1 /\ c.m = D.n2
    [] OTHER -> TRUE
NearestFuture(D, ts, r) ==
  LET today == Days(ts)  rn == DaysFromCivil(r.y, r.m, r.d) IN
  /\ ValidDate(r.y, r.m, r.d)
  /\ rn >= today
  /\ Matches(D, rn)
  /\ \A n \in (today + 1)..(rn - 1) : ~Matches(D, n)
  /\ (D.dk \in {"dow", "thisdow", "dom"}) => rn > today      \* today's weekday / day rolls
  /\ (D.dk = "doy" /\ Matches(D, today)) => rn = today       \* today's day+month stays

\* ---- clocks (C06) ----------------------------------------------------------
\* a date-less time of day, minute-normalised (8 o'clock = 08:00)
NormTOD(v) == IF IsTime(v) /\ isTOD(v) THEN TOD(v.H, Nz(v.M, 0)) ELSE v
DenoteClock(C) == TOD(C.h, C.mi)
\* with latent anchoring: the first such minute strictly after the reference minute
DenoteClockLatent(C, ts) ==
  LET now == AbsMin(ts)
      a == CHOOSE x \in (now + 1)..(now + 1440) : x % 1440 = C.h * 60 + C.mi
      t == FromAbsMin(a)
  IN DateTime(t.y, t.m, t.d, t.H, t.M)

\* ---- day + clock (C20) -------------------------------------------------------
Glue(vd, vc) == MkTime(vd.y, vd.m, vd.d, vc.H, Nz(vc.M, 0), X, NOPOD)
GlueOK(vd, vc, vb) ==
  /\ IsTime(vd) /\ IsTime(vc) /\ IsTime(vb)
  /\ vb.y = vd.y /\ vb.m = vd.m /\ vb.d = vd.d          \* adding the clock never moves the day
  /\ vb.H = vc.H /\ Nz(vb.M, 0) = Nz(vc.M, 0)           \* the clock part is never dropped

\* ---- ranges (C07) ------------------------------------------------------------
HMmin(c) == c.h * 60 + c.mi
TimeAbs(t) == DaysFromCivil(t.y, t.m, t.d) * 1440 + Nz(t.H, 0) * 60 + Nz(t.M, 0)
\* clock range A..B on the date d (a Date value): the interval val must start at d+A and end
\* at B, moved 12 h later or to the next day when B is not after A
ClockRangeOnDateOK(d, A, B, val) ==
  /\ IsInterval(val) /\ val.f # NONE /\ val.t # NONE
  /\ FullyDated(val.f) /\ FullyDated(val.t)
  /\ val.f.y = d.y /\ val.f.m = d.m /\ val.f.d = d.d /\ val.f.H = A.h /\ Nz(val.f.M, 0) = A.mi
  /\ LET base == DaysFromCivil(d.y, d.m, d.d) * 1440
         fa == base + HMmin(A)
         ta == TimeAbs(val.t)
     IN /\ IF HMmin(B) > HMmin(A) THEN ta = base + HMmin(B)
           ELSE ta \in {base + HMmin(B) + 720, base + HMmin(B) + 1440}
        /\ fa < ta /\ ta - fa <= 1440
\* date-less clock range with latent anchoring
ClockRangeLatentOK(ts, A, B, val) ==
  LET f == DenoteClockLatent(A, ts) IN ClockRangeOnDateOK(Date(f.y, f.m, f.d), A, B, val)
\* date-less clock range, no anchoring: two times of day; an end not after the start may
\* have been moved 12 h later
ClockRangeBareOK(A, B, val) ==
  /\ IsInterval(val) /\ val.f # NONE /\ val.t # NONE
  /\ NormTOD(val.f) = TOD(A.h, A.mi)
  /\ \/ NormTOD(val.t) = TOD(B.h, B.mi)
     \/ (HMmin(B) <= HMmin(A) /\ B.h < 12 /\ NormTOD(val.t) = TOD(B.h + 12, B.mi))
\* date range
DateRangeOK(d1, d2, val) ==
  IF DateLess(d1, d2)
  THEN val = MkInterval(d1, d2)
  ELSE ~(IsInterval(val) /\ val.f # NONE /\ val.t # NONE /\ FullyDated(val.f) /\ FullyDated(val.t)
          /\ TsLT(MkTs(val.t.y, val.t.m, val.t.d, Nz(val.t.H, 0), Nz(val.t.M, 0)), MkTs(val.f.y, val.f.m, val.f.d, Nz(val.f.H, 0), Nz(val.f.M, 0))))
\* before / after / not before / not after
HalfOpenOK(side, x, val) ==
  IF side = "until" THEN val = MkInterval(NONE, x) ELSE val = MkInterval(x, NONE)

\* ---- durations (C08) -----------------------------------------------------------
DenoteDuration(n, u) == MkDuration(n, u)
\* <date> for <duration>: the end is calendar arithmetic (months clipped like 31 Jan + 1 month)
EndAfter(d, n, u) ==
  LET b == MkTs(d.y, d.m, d.d, Nz(d.H, 0), Nz(d.M, 0)) IN
  CASE u \in {"days", "nights"} -> DateOfDays(Days(b) + n)
    [] u = "weeks" -> DateOfDays(Days(b) + 7 * n)
    [] u = "months" -> LET e == AddMonths(b, n) IN Date(e.y, e.m, e.d)
    [] u = "hours" -> LET e == AddMinutes(b, 60 * n) IN DateTime(e.y, e.m, e.d, e.H, e.M)
    [] u = "minutes" -> LET e == AddMinutes(b, n) IN DateTime(e.y, e.m, e.d, e.H, e.M)
=============================================================================
