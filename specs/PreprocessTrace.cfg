SPECIFICATION TSpec
CONSTANTS
  MaxLen = 0
CHECK_DEADLOCK FALSE
