------------------------------- MODULE Derive -------------------------------
(***************************************************************************)
(* The nondeterministic rewriting system the search explores: a partial    *)
(* production is a sequence of pattern matches (tokens) and values; a step  *)
(* applies any registered rule to any window its pattern matches           *)
(* (ctparse.py:_match_rule + partial_parse.py:apply_rule).  Init ranges    *)
(* over ALL token sequences of length <= K over a representative alphabet  *)
(* (adjacency and lexing are ignored), which over-approximates every text  *)
(* of <= K matches - the sound direction for "never":                      *)
(*   NoRaise     no applicable production raises                    (C01)  *)
(*   AllWF       every value ever produced is well formed           (C02)  *)
(*   PodsKnown   every part of day produced is in the table         (C19)  *)
(*   Decreasing  every step strictly decreases a well-founded       (C01)  *)
(*               measure => the search space is finite, the search         *)
(*               terminates without a timeout                              *)
(***************************************************************************)
EXTENDS Rules, RuleTable, TLC

CONSTANTS K,          \* maximal number of tokens
          Fam,        \* alphabet family: "date" | "clock" | "dur" | "pod"
          NTs         \* how many of the reference times to use
VARIABLES prod, ts
vars == <<prod, ts>>

RefTimeSeq == <<
  MkTs(2018, 3, 7, 12, 43), MkTs(2020, 2, 29, 12, 43), MkTs(2019, 2, 28, 23, 59), MkTs(2018, 1, 31, 0, 0),
  MkTs(2018, 12, 31, 12, 0), MkTs(2019, 1, 1, 0, 0), MkTs(2018, 4, 30, 8, 0), MkTs(2023, 11, 5, 20, 30) >>
RefTimes == {RefTimeSeq[i] : i \in 1..NTs}

T0(id) == Tok(id, X, X, X, "X")
T1(id, a) == Tok(id, a, X, X, "X")

Common == {T0(100), T0(101), T0(136), T1(134, 0), T1(134, 1), T1(135, 0), T1(135, 1), T0(140)}
RelDays == {T0(112), T0(113), T0(114), T0(115), T0(116), T0(117), T0(118), T0(119)}

AlphaDate ==
  Common \cup RelDays
  \cup {T1(108, d) : d \in {1, 28, 29, 30, 31}} \cup {T1(110, d) : d \in {29, 31}}
  \cup {T1(109, m) : m \in {2, 4, 12}} \cup {T1(103, m) : m \in {1, 2, 4}}
  \cup {T1(111, y) : y \in {2019, 2020, 19, 99}}
  \cup {Tok(124, 31, 4, X, "X"), Tok(124, 29, 2, X, "X"), Tok(124, 30, 1, X, "X"), Tok(125, 30, 2, X, "X"), Tok(125, 4, 7, X, "X")}
  \cup {Tok(126, 31, 4, 2020, "X"), Tok(126, 29, 2, 2019, "X"), Tok(126, 29, 2, 20, "X"), Tok(126, 1, 1, 2018, "X")}
  \cup {T1(102, 0), T1(102, 6), T0(120), T0(121), T0(122), T0(123)}

AlphaClock ==
  Common
  \cup {Tok(128, 8, X, X, "X"), Tok(128, 8, 30, X, "p"), Tok(128, 12, X, X, "a"), Tok(128, 12, 0, X, "p"),
        Tok(128, 0, 0, X, "X"), Tok(128, 23, 59, X, "X"), Tok(128, 9, X, X, "X"), Tok(128, 5, X, X, "X"),
        Tok(128, 23, 30, X, "X"), Tok(128, 3, 35, X, "X"), Tok(128, 13, 0, X, "a")}
  \cup {Tok(127, 20, 30, 0, "X"), Tok(127, 20, 18, 0, "X"), Tok(127, 8, 0, 1, "p"), Tok(127, 12, 15, 0, "a")}
  \cup {T1(129, 17), T1(129, 3), T1(104, 1), T1(104, 12), T0(105), T0(130), T0(131), T0(132), T0(133)}
  \cup {Tok(106, X, X, X, m) : m \in Modifiers}
  \cup {Tok(107, X, X, X, p) : p \in {"morning", "afternoon", "earlymorning", "last", "first", "night", "noon"}}
  \cup {T0(112), T0(114), Tok(126, 1, 1, 2018, "X"), Tok(126, 31, 12, 2019, "X"), T1(102, 0)}

AlphaDur ==
  {T0(136), T0(140), T0(100)}
  \cup {Tok(137, 0, X, X, "days"), Tok(137, 3, X, X, "days"), Tok(137, 2, X, X, "weeks"), Tok(137, 1, X, X, "months"),
        Tok(137, 48, X, X, "hours"), Tok(137, 90, X, X, "minutes"), Tok(137, 1, X, X, "nights"),
        Tok(137, 1000000, X, X, "days"), Tok(137, 100000, X, X, "months")}
  \cup {Tok(138, 1, X, X, "days"), Tok(138, 31, X, X, "nights")}
  \cup {Tok(139, X, X, X, u) : u \in {"hours", "days", "weeks"}}
  \cup {Tok(126, 31, 1, 2020, "X"), Tok(126, 28, 2, 2019, "X"), Tok(126, 3, 2, 2020, "X"), Tok(126, 31, 4, 2020, "X")}
  \cup {T1(108, 1), T1(108, 3), T1(108, 31), T0(112), T0(114), Tok(128, 8, X, X, "X")}
  \cup {Tok(107, X, X, X, "morning")}

PodTokens == {Tok(107, X, X, X, p) : p \in {"first", "last", "earlymorning", "lateevening", "morning", "forenoon",
                                             "afternoon", "noon", "evening", "night"}}
ModTokens == {Tok(106, X, X, X, m) : m \in Modifiers}

\* <part of day> <end> <joiner> <end>, each end a clock time with or without a written date: the shapes on which
\* rulePODInterval meets intervals built by ruleTODTOD / ruleDateTimeDateTime / ruleDateInterval
\* (thorough, K = 7: six clocks and two dates - eight clocks x three dates did not finish within an hour)
PRClocks == IF K <= 6 THEN {Tok(128, 8, X, X, "X"), Tok(128, 13, 0, X, "X"), Tok(128, 1, 0, X, "X"), Tok(128, 0, 0, X, "X")}
            ELSE {Tok(128, 8, X, X, "X"), Tok(128, 13, 0, X, "X"), Tok(128, 11, 30, X, "X"), Tok(128, 1, X, X, "X"),
                  Tok(128, 12, 0, X, "X"), Tok(128, 0, 0, X, "X")}
PRDates == {Tok(126, 1, 1, 2020, "X"), T0(114)}
PREnds == {<<c>> : c \in PRClocks} \cup {<<d, c>> : d \in PRDates, c \in PRClocks}
PodRangeSeqs == {<<p>> \o a \o <<T0(136)>> \o b : p \in PodTokens, a \in PREnds, b \in PREnds}
\* the same ranges without a part of day, optionally introduced by from/between (101), followed by a date or by "for <duration>":
\* ruleTODTOD / ruleDateTimeDateTime / ruleDateInterval / ruleIntervalDate / ruleAbsorbFromInterval / ruleIntervalConjDuration
RGDurs == {Tok(137, 2, X, X, "hours"), Tok(137, 1, X, X, "days"), Tok(137, 90, X, X, "minutes")}
RGTails == {<<>>} \cup {<<d>> : d \in PRDates} \cup {<<T0(140), u>> : u \in RGDurs} \cup {<<u>> : u \in RGDurs}
RGHeads == {<<>>, <<T0(101)>>}
\* <day> <part of day> for <duration> (ruleTimeDuration starts from the value's dt, which for a part of day is its first hour)
PodDurSeqs == {<<d, p, T0(140), u>> : d \in PRDates, p \in PodTokens, u \in RGDurs}
              \cup {<<p, d, T0(140), u>> : d \in PRDates, p \in PodTokens, u \in RGDurs}
              \cup {<<d, p, u>> : d \in PRDates, p \in PodTokens, u \in RGDurs}
RangeSeqs == {h \o a \o <<T0(136)>> \o b \o t : h \in RGHeads, a \in PREnds, b \in PREnds, t \in RGTails} \cup PodDurSeqs

Alphabet == CASE Fam = "date" -> AlphaDate [] Fam = "clock" -> AlphaClock [] Fam = "dur" -> AlphaDur
              [] Fam \in {"pod", "podrange", "range"} -> PodTokens \cup ModTokens

SeqsUpTo(S, n) == UNION {[1..k -> S] : k \in 1..n}

Init ==
  /\ ts \in RefTimes
  /\ IF Fam = "pod"
     THEN \E k \in 0..(K - 1) : \E ms \in [1..k -> ModTokens] : \E p \in PodTokens : prod = ms \o <<p>>
     ELSE IF Fam = "podrange" THEN prod \in PodRangeSeqs
     ELSE IF Fam = "range" THEN prod \in RangeSeqs
     ELSE prod \in SeqsUpTo(Alphabet, K)

ElemMatches(pe, v) ==
  CASE pe.t = "R" -> IsToken(v) /\ v.id = pe.id
    [] OTHER -> ~IsToken(v) /\ Pred(pe.n, v)

WindowMatches(r, i) ==
  LET pat == RulePat[r] IN
  /\ i + Len(pat) - 1 <= Len(prod)
  /\ \A j \in 1..Len(pat) : ElemMatches(pat[j], prod[i + j - 1])

Window(r, i) == SubSeq(prod, i, i + Len(RulePat[r]) - 1)
Result(r, i) == Apply(r, ts, Window(r, i))

Rewrite(r, i) ==
  /\ WindowMatches(r, i)
  /\ Result(r, i) \notin {FAIL, ERR}
  /\ prod' = SubSeq(prod, 1, i - 1) \o <<Result(r, i)>> \o SubSeq(prod, i + Len(RulePat[r]), Len(prod))
  /\ UNCHANGED ts

Next == \E r \in RuleNames : \E i \in 1..Len(prod) : Rewrite(r, i)
Spec == Init /\ [][Next]_vars

\* ---- properties ------------------------------------------------------------
NoRaise == \A r \in RuleNames : \A i \in 1..Len(prod) : WindowMatches(r, i) => Result(r, i) # ERR
AllWF == \A i \in 1..Len(prod) : IsValue(prod[i]) => WellFormed(prod[i])
PodsKnown == \A i \in 1..Len(prod) :
   /\ (IsTime(prod[i]) /\ prod[i].p # NOPOD) => PodKnown(prod[i].p)
   /\ IsInterval(prod[i]) => \A e \in {prod[i].f, prod[i].t} : (e # NONE /\ e.p # NOPOD) => PodKnown(e.p)
AccessorsTotal == \A i \in 1..Len(prod) :
   /\ IsTime(prod[i]) => (EndsReal(prod[i]) /\ (hasDate(prod[i]) => DtOf(prod[i]) # ERR))
   /\ IsInterval(prod[i]) => \A e \in {prod[i].f, prod[i].t} : e # NONE => EndsReal(e)

\* latent anchoring of whatever the search can stream keeps it well formed (C02)
PostWF == \A i \in 1..Len(prod) : IsValue(prod[i]) => WellFormed(Postprocess(ts, prod[i]))

Rank(v) == IF IsToken(v) THEN 2
           ELSE IF IsTime(v) /\ (isDOM(v) \/ isDOW(v) \/ isDOY(v) \/ isPOD(v)) THEN 1 ELSE 0
RECURSIVE SumRank(_)
SumRank(s) == IF s = <<>> THEN 0 ELSE Rank(Head(s)) + SumRank(Tail(s))
Measure(s) == 3 * Len(s) + SumRank(s)
Decreasing == [][Measure(prod') < Measure(prod)]_vars
=============================================================================
