SPECIFICATION Spec
CONSTANTS
  InitSeqs <- I3_Init
  Rewrites <- I3_Rules
  RuleOrder <- I3_Order
  Depth = 0
  Scores <- S01
  CanExpire = FALSE
  RelNum = 0
  RelDen = 1
INVARIANT TypeOK
INVARIANT Sound
INVARIANT Complete
INVARIANT StrictlyBetter
INVARIANT DepthOK
INVARIANT BoundedWork
INVARIANT NoTimeoutWithoutDeadline
PROPERTY Terminates
CHECK_DEADLOCK FALSE
