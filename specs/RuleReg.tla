------------------------------- MODULE RuleReg -------------------------------
(***************************************************************************)
(* The rule decorator's pattern registry (ctparse/rule.py:55-112) as a     *)
(* state machine: patterns are registered one after the other; a pattern   *)
(* that can match the empty string is rejected (and leaves no trace), a    *)
(* pattern text seen before is recycled with its identifier, a new one     *)
(* gets the next identifier.  TLC checks the structural invariants of C19  *)
(* for every sequence of registrations and EXPORTS every sequence (with    *)
(* the expected outcome of each step) for replay on the real decorator.    *)
(***************************************************************************)
EXTENDS Integers, Sequences, FiniteSets, TLC

CONSTANTS Patterns,      \* pattern texts
          Bad,           \* the subset that can match the empty string
          MaxLen, FirstId
VARIABLES ids, nextId, hist
vars == <<ids, nextId, hist>>

Init == ids = <<>> /\ nextId = FirstId /\ hist = <<>>
Register(p) ==
  /\ Len(hist) < MaxLen
  /\ IF p \in DOMAIN ids
     THEN /\ UNCHANGED <<ids, nextId>>
          /\ hist' = Append(hist, <<p, "recycled", ids[p]>>)
     ELSE IF p \in Bad
     THEN /\ UNCHANGED <<ids, nextId>>
          /\ hist' = Append(hist, <<p, "rejected", 0>>)
     ELSE /\ ids' = [q \in DOMAIN ids \cup {p} |-> IF q = p THEN nextId ELSE ids[q]]
          /\ nextId' = nextId + 1
          /\ hist' = Append(hist, <<p, "new", nextId>>)
Next == \E p \in Patterns : Register(p)
Spec == Init /\ [][Next]_vars

NoBadRegistered == DOMAIN ids \cap Bad = {}
Injective == \A p, q \in DOMAIN ids : ids[p] = ids[q] => p = q
Dense == {ids[p] : p \in DOMAIN ids} = FirstId..(nextId - 1)
Export == Len(hist) = MaxLen => PrintT(<<"REG", hist>>)
=============================================================================
