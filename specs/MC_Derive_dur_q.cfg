SPECIFICATION Spec
CONSTANTS
  K = 2
  Fam = "dur"
  NTs = 4
INVARIANT NoRaise
INVARIANT AllWF
INVARIANT PodsKnown
INVARIANT AccessorsTotal
INVARIANT PostWF
PROPERTY Decreasing
CHECK_DEADLOCK FALSE
