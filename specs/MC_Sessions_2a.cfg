SPECIFICATION Spec
CONSTANTS
  NSess = 2
  Steps <- St2
  MaxAbandon = 1
  MaxCrash = 1
INVARIANT PrefixOfSolo
INVARIANT GlobalsUntouched
INVARIANT Export
CHECK_DEADLOCK FALSE
