------------------------------- MODULE Values -------------------------------
(***************************************************************************)
(* The abstract value domain of quickadd (ctparse/types.py).               *)
(*                                                                         *)
(*   Time     [k |-> "T", y, m, d, H, M, w, p]    absent field = X / "X"   *)
(*   Interval [k |-> "I", f, t]                   open end     = NONE      *)
(*   Duration [k |-> "D", n, u]                                            *)
(*   Token    [k |-> "R", id, n1, n2, n3, s1]     a pattern match with the *)
(*                                                payload its rule reads   *)
(*   FAIL     a production that declined (the code's None)                 *)
(*   ERR      an exception would escape                                    *)
(*                                                                         *)
(* The part-of-day table is NOT written here: it is exported from          *)
(* ctparse.types.pod_hours of the tree under test (module PodData), so     *)
(* the table TLC reasons about is the table of the code.  Per key it       *)
(* carries h0/h1 (start/end hour) and the two flags the rules derive by    *)
(* substring tests: pm ("afternoon|evening|night|last" occurs in the key)  *)
(* and am ("forenoon|morning|first" occurs in the key).                    *)
(***************************************************************************)
EXTENDS Integers, Sequences, Calendar, PodData

X == -1
NOPOD == "X"
NONE == [k |-> "N"]
FAIL == [k |-> "F"]
ERR  == [k |-> "E"]

\* PodTable is defined in PodData.tla, a module GENERATED at check time from
\* ctparse.types.pod_hours of the tree under test (harness/qa.py: write_pod_module)
\* and put on TLC's library path; a literal, so TLC evaluates it once.
PodKnown(p) == p \in DOMAIN PodTable
PodH0(p) == PodTable[p].h0
PodH1(p) == PodTable[p].h1
PodPM(p) == PodTable[p].pm
PodAM(p) == PodTable[p].am
PodAft(p) == PodTable[p].aft        \* an afternoon part of day (hour 0 next to it is the hour after noon, not midnight)

MkTime(y, m, d, H, M, w, p) ==
  [k |-> "T", y |-> y, m |-> m, d |-> d, H |-> H, M |-> M, w |-> w, p |-> p]
Date(y, m, d) == MkTime(y, m, d, X, X, X, NOPOD)
DateOfTs(ts) == Date(ts.y, ts.m, ts.d)
DateTime(y, m, d, H, M) == MkTime(y, m, d, H, M, X, NOPOD)
TOD(H, M) == MkTime(X, X, X, H, M, X, NOPOD)
DOW(w) == MkTime(X, X, X, X, X, w, NOPOD)
DOM(d) == MkTime(X, X, d, X, X, X, NOPOD)
MonthT(m) == MkTime(X, m, X, X, X, X, NOPOD)
DOY(m, d) == MkTime(X, m, d, X, X, X, NOPOD)
YearT(y) == MkTime(y, X, X, X, X, X, NOPOD)
POD(p) == MkTime(X, X, X, X, X, X, p)
MkInterval(f, t) == [k |-> "I", f |-> f, t |-> t]
MkDuration(n, u) == [k |-> "D", n |-> n, u |-> u]

IsTime(v) == v.k = "T"
IsInterval(v) == v.k = "I"
IsDuration(v) == v.k = "D"
IsToken(v) == v.k = "R"
IsValue(v) == v.k \in {"T", "I", "D"}

Units == {"minutes", "hours", "days", "nights", "weeks", "months"}

\* ---- which fields are set (types.py: _hasOnly / _hasAtLeast) -------------
SetFields(t) == {f \in {"y", "m", "d", "H", "M", "w"} : t[f] # X} \cup (IF t.p # NOPOD THEN {"p"} ELSE {})
HasOnly(t, fs) == IsTime(t) /\ SetFields(t) = fs
HasAtLeast(t, fs) == IsTime(t) /\ fs \subseteq SetFields(t)

isDOY(t) == HasOnly(t, {"m", "d"})
isDOM(t) == HasOnly(t, {"d"})
isDOW(t) == HasOnly(t, {"w"})
isMonth(t) == HasOnly(t, {"m"})
isPOD(t) == HasOnly(t, {"p"})
isHour(t) == HasOnly(t, {"H"})
isTOD(t) == HasOnly(t, {"H"}) \/ HasOnly(t, {"H", "M"})
isDate(t) == HasOnly(t, {"y", "m", "d"})
isDateTime(t) == HasOnly(t, {"y", "m", "d", "H"}) \/ HasOnly(t, {"y", "m", "d", "H", "M"})
isYear(t) == HasOnly(t, {"y"})
hasDate(t) == HasAtLeast(t, {"y", "m", "d"})
hasDOY(t) == HasAtLeast(t, {"m", "d"})
hasDOW(t) == HasAtLeast(t, {"w"})
hasTime(t) == HasAtLeast(t, {"H"})
hasPOD(t) == HasAtLeast(t, {"p"})
isTimeInterval(v) == IsInterval(v) /\ v.f # NONE /\ v.t # NONE /\ isTOD(v.f) /\ isTOD(v.t)
isDateInterval(v) == IsInterval(v) /\ v.f # NONE /\ v.t # NONE /\ isDate(v.f) /\ isDate(v.t)

\* the predicate a rule pattern names, applied to any stack element
Pred(name, v) ==
  CASE name = "isDOY" -> isDOY(v) [] name = "isDOM" -> isDOM(v) [] name = "isDOW" -> isDOW(v)
    [] name = "isMonth" -> isMonth(v) [] name = "isPOD" -> isPOD(v) [] name = "isHour" -> isHour(v)
    [] name = "isTOD" -> isTOD(v) [] name = "isDate" -> isDate(v) [] name = "isDateTime" -> isDateTime(v)
    [] name = "isYear" -> isYear(v) [] name = "hasDate" -> hasDate(v) [] name = "hasDOY" -> hasDOY(v)
    [] name = "hasDOW" -> hasDOW(v) [] name = "hasTime" -> hasTime(v) [] name = "hasPOD" -> hasPOD(v)
    [] name = "isTimeInterval" -> isTimeInterval(v) [] name = "isDateInterval" -> isDateInterval(v)
    [] name = "Time" -> IsTime(v) [] name = "Interval" -> IsInterval(v) [] name = "Duration" -> IsDuration(v)

\* ---- accessors (partial: ERR where the code would raise) -----------------
Nz(v, dflt) == IF v = X THEN dflt ELSE v
\* Time.start / Time.end
StartOf(t) ==
  IF t.H = X /\ t.p # NOPOD
  THEN IF PodKnown(t.p) THEN MkTime(t.y, t.m, t.d, PodH0(t.p), Nz(t.M, 0), X, NOPOD) ELSE ERR
  ELSE MkTime(t.y, t.m, t.d, Nz(t.H, 0), Nz(t.M, 0), X, NOPOD)
EndOf(t) ==
  IF t.H = X /\ t.p # NOPOD
  THEN IF PodKnown(t.p) THEN MkTime(t.y, t.m, t.d, PodH1(t.p), Nz(t.M, 59), X, NOPOD) ELSE ERR
  ELSE MkTime(t.y, t.m, t.d, Nz(t.H, 23), Nz(t.M, 59), X, NOPOD)
\* Time.dt as a timestamp record, or ERR (underspecified, impossible date, hour out of range)
DtOf(t) ==
  LET s == StartOf(t) IN
  IF s = ERR THEN ERR
  ELSE IF s.y = X \/ s.m = X \/ s.d = X THEN ERR
  ELSE IF ~(s.y \in 1..9999 /\ ValidDate(s.y, s.m, s.d) /\ s.H \in 0..23 /\ s.M \in 0..59) THEN ERR
  ELSE MkTs(s.y, s.m, s.d, s.H, s.M)

\* ---- C02: what "denotes something real" means ---------------------------
FieldRangesOK(t) ==
  /\ t.m = X \/ t.m \in 1..12
  /\ t.H = X \/ t.H \in 0..23
  /\ t.M = X \/ t.M \in 0..59
  /\ t.w = X \/ t.w \in 0..6
  /\ t.y = X \/ t.y \in 1..9999
  /\ t.p = NOPOD \/ PodKnown(t.p)
  /\ t.d = X \/ (/\ t.d \in 1..31
                 /\ t.m # X => t.d <= DIMAny(t.m)
                 /\ (t.m # X /\ t.y # X) => t.d <= DIM(t.y, t.m))
\* the first and the last moment a value stands for are real clock times too (a part of day whose table entry ends at
\* hour 24 prints fine, but its .end is "24:59" and .end.dt raises)
EndsReal(t) == LET s == StartOf(t)  e == EndOf(t) IN
  s # ERR /\ e # ERR /\ s.H \in 0..23 /\ s.M \in 0..59 /\ e.H \in 0..23 /\ e.M \in 0..59
WellFormedTime(t) == FieldRangesOK(t) /\ EndsReal(t)
FullyDated(t) == t.y # X /\ t.m # X /\ t.d # X
WellFormed(v) ==
  CASE IsTime(v) -> WellFormedTime(v)
    [] IsInterval(v) ->
         /\ v.f = NONE \/ (IsTime(v.f) /\ WellFormedTime(v.f))
         /\ v.t = NONE \/ (IsTime(v.t) /\ WellFormedTime(v.t))
         /\ (v.f # NONE /\ v.t # NONE /\ FullyDated(v.f) /\ FullyDated(v.t))
              => TsLE(DtOf(v.f), LET e == EndOf(v.t) IN MkTs(e.y, e.m, e.d, e.H, e.M))
    [] IsDuration(v) -> v.n >= 0 /\ v.u \in Units
    [] OTHER -> FALSE
=============================================================================
