SPECIFICATION Spec
CONSTANTS
  Dummy = 0
INVARIANT ByValue
CHECK_DEADLOCK FALSE
