------------------------------- MODULE Subject -------------------------------
(***************************************************************************)
(* C10: subject and labels.  A text is a sequence of ITEMS                 *)
(*   [k |-> "I", w]  inert word (no time pattern can match it)             *)
(*   [k |-> "O", w]  ordinary word (some pattern could match it)           *)
(*   [k |-> "H", w]  hashtag "#w"                                          *)
(*   [k |-> "T", w]  a word of the time expression                         *)
(* Labels(items) = the hashtag texts in order.  A subject s (sequence of   *)
(* words) is acceptable iff it is a subsequence of the non-hashtag words,  *)
(* keeps every inert word, and contains none of the `used` words (those    *)
(* lying wholly inside a pattern match the resolution was built from).     *)
(***************************************************************************)
EXTENDS Integers, Sequences, FiniteSets, TLC

RECURSIVE IsSubseq(_, _)
IsSubseq(a, b) == IF a = <<>> THEN TRUE
                  ELSE IF b = <<>> THEN FALSE
                  ELSE IF Head(a) = Head(b) THEN IsSubseq(Tail(a), Tail(b)) ELSE IsSubseq(a, Tail(b))
RECURSIVE Pick(_, _)
Pick(items, kinds) == IF items = <<>> THEN <<>>
                      ELSE (IF Head(items).k \in kinds THEN <<Head(items).w>> ELSE <<>>) \o Pick(Tail(items), kinds)
Labels(items) == Pick(items, {"H"})
NonHashWords(items) == Pick(items, {"I", "O", "T"})
InertWords(items) == Pick(items, {"I"})
ToSet(s) == {s[i] : i \in 1..Len(s)}
SubjectOK(items, used, subj) ==
  /\ IsSubseq(subj, NonHashWords(items))
  /\ IsSubseq(InertWords(items), subj)
  /\ ToSet(subj) \cap ToSet(used) = {}
  /\ ToSet(subj) \cap ToSet(Labels(items)) \subseteq ToSet(NonHashWords(items))
NoHash(items) == SelectSeq(items, LAMBDA x : x.k # "H")
NoTime(items) == SelectSeq(items, LAMBDA x : x.k # "T")

\* ---- model: all arrangements of <= MaxItems items; the specification is consistent and closed
\* ---- under the metamorphic steps the property names
CONSTANTS MaxItems
VARIABLE items
Kinds == {"I", "O", "H", "T"}
Word(k, i) == [k |-> k, w |-> <<k, i>>]
Init == \E n \in 0..MaxItems : items \in [1..n -> {Word(k, i) : k \in Kinds, i \in 1..2}]
Next == UNCHANGED items
Spec == Init /\ [][Next]_items
\* the minimal and the maximal acceptable subject
MinSubject == InertWords(items)
UsedAll == Pick(items, {"T"})
MaxSubject == SelectSeq(NonHashWords(items), LAMBDA w : w \notin ToSet(UsedAll))
Satisfiable == SubjectOK(items, UsedAll, MinSubject) /\ SubjectOK(items, UsedAll, MaxSubject)
HashtagsIndependent ==
  /\ Labels(NoHash(items)) = <<>>
  /\ NonHashWords(NoHash(items)) = NonHashWords(items)
  /\ \A s \in {MinSubject, MaxSubject} : SubjectOK(items, UsedAll, s) <=> SubjectOK(NoHash(items), UsedAll, s)
NoMatchPath == /\ Labels(NoTime(items)) = Labels(items)
               /\ InertWords(NoTime(items)) = InertWords(items)
=============================================================================
