--------------------------- MODULE MC_SearchRefine ---------------------------
(* SearchImpl (the search as written; no depth limit, no deadline) IMPLEMENTS the abstract,       *)
(* order-agnostic Search under the refinement mapping below - checked by TLC as a temporal         *)
(* property on the instances of MC_SearchImpl, for every scorer.                                    *)
EXTENDS MC_SearchImpl

KeysOf(S) == {Key(p.prod) : p \in S}
AdmittedKeys == {Key(q) : q \in Admitted}
FrontierAbs == IF pc = "init" THEN AdmittedKeys
               ELSE KeysOf(stack \cup newEls) \cup (IF pc = "expand" THEN {Key(cur.prod)} ELSE {})
SeenAbs == AdmittedKeys \cup DOMAIN stackProd
EmittedAbs == OutVals \cup (IF pc = "emit" THEN {cur.prod[i].a : i \in {j \in 1..Len(cur.prod) : ~cur.prod[j].tok}} ELSE {})

A == INSTANCE Search WITH frontier <- FrontierAbs, seen <- SeenAbs, emitted <- EmittedAbs,
                          ARewrites <- Rewrites, AInit <- Admitted
Refines == A!ASpec
AbsSound == A!ASound
AbsComplete == A!AComplete
=============================================================================
