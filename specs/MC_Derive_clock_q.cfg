SPECIFICATION Spec
CONSTANTS
  K = 2
  Fam = "clock"
  NTs = 4
INVARIANT NoRaise
INVARIANT AllWF
INVARIANT PodsKnown
INVARIANT AccessorsTotal
INVARIANT PostWF
PROPERTY Decreasing
CHECK_DEADLOCK FALSE
