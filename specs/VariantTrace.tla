------------------------------ MODULE VariantTrace ------------------------------
(* Judge of metamorphic observations: the resolution of a variant text (separator / dash / case    *)
(* substitution, embedding in inert words, added or removed hashtags) against the resolution of     *)
(* the base text; for embeddings also the reported span against the position of the expression.     *)
(*   same-value   variant resolution = base resolution                                              *)
(*   span         mstart/mend delimit exactly the expression in the normalised text (C09)           *)
EXTENDS Values, TLC, Json, IOUtils
Obs == ndJsonDeserialize(IOEnv.QA_OBS_FILE)
VARIABLE l
Reject(o, clause, detail) == PrintT(<<"REJECT", o.id, clause, ToString(detail)>>)
Check(o) ==
  /\ IF o.val = o.base THEN TRUE ELSE Reject(o, "resolution-changed", o.base)
  /\ IF o.checkspan = 1 /\ o.val.k # "F" /\ ~(o.s = o.xs /\ o.e = o.xe) THEN Reject(o, "span", <<o.xs, o.xe>>) ELSE TRUE
ASSUME TLCSet(7, Obs)
Init == LET O == TLCGet(7) IN l \in 1..Len(O) /\ Check(O[l])
Next == UNCHANGED l
Spec == Init /\ [][Next]_l
=============================================================================
