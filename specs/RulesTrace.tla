----------------------------- MODULE RulesTrace -----------------------------
(***************************************************************************)
(* Judge of recorded rule applications ("rule rows").  Every row is one    *)
(* call the real engine made:  <<rule, ts, args before, args after, res>>. *)
(* A row is accepted iff                                                    *)
(*   apply : Apply(rule, ts, args) = res          (Rules.tla is the code)  *)
(*   pure  : the argument values are unchanged by the call (C12, C15)      *)
(*   wf    : a produced value is well formed (C02)                         *)
(*   raise : the call did not raise (C01)                                  *)
(*   fresh : the result is not an object handed out by an earlier call     *)
(* One initial state per row (wide and shallow), verdicts are total: every *)
(* rejected row prints <<"REJECT", id, clause, expected>>.                 *)
(***************************************************************************)
EXTENDS Rules, TLC, Json, IOUtils

Obs == ndJsonDeserialize(IOEnv.QA_OBS_FILE)
VARIABLE l

Reject(o, clause, detail) == PrintT(<<"REJECT", o.id, clause, ToString(detail)>>)

Check(o) ==
  \* rule = "postprocess" is the latent-time post-processing step (postprocess_latent.py)
  LET e == IF o.rule = "postprocess" THEN Postprocess(o.ts, o.a[1]) ELSE Apply(o.rule, o.ts, o.a) IN
  /\ IF o.res = ERR THEN Reject(o, "raise", e) ELSE TRUE
  /\ IF o.res # ERR /\ e # o.res THEN Reject(o, "apply", e) ELSE TRUE
  /\ IF o.a # o.a2 THEN Reject(o, "pure", o.a2) ELSE TRUE
  \* a production builds a fresh value: an object it handed out before is shared between partial parses / streams
  /\ IF o.alias = 1 THEN Reject(o, "result-object-shared", o.res) ELSE TRUE
  /\ IF o.res \notin {ERR, FAIL} /\ ~WellFormed(o.res) THEN Reject(o, "wf", o.res) ELSE TRUE

\* the batch is deserialised once into a TLC register (a plain reference to Obs re-reads the
\* file for every state: measured 59 s instead of 3 s for 8000 rows)
ASSUME TLCSet(7, Obs)
Init == LET O == TLCGet(7) IN l \in 1..Len(O) /\ Check(O[l])
Next == UNCHANGED l
Spec == Init /\ [][Next]_l
=============================================================================
