SPECIFICATION Spec
CONSTANTS
  Mode = "C04"
  FirstDay = 18255
  LastDay = 18326
  DayStep = 1
  Minutes <- AllMinutes
INVARIANT Inv
CHECK_DEADLOCK FALSE
