-------------------------------- MODULE Rules --------------------------------
(***************************************************************************)
(* Every production of ctparse/time/rules.py as the operator               *)
(*     Apply(rule, ts, args)  ->  value | FAIL | ERR                       *)
(* plus Postprocess(ts, v) (ctparse/time/postprocess_latent.py).           *)
(*                                                                         *)
(* The transcription is AS BUILT, with one exception: where a listed       *)
(* property demands behaviour the pinned code did not have, the operator   *)
(* states the property-conforming behaviour and the line is marked         *)
(* INTENDED(Cxx).  The difference then surfaces in conformance (rule rows  *)
(* recorded from the real engine are judged against Apply) as a defect to  *)
(* repair or a finding - it is never carried silently.                     *)
(*                                                                         *)
(* A pattern match enters as a Token [k |-> "R", id, n1, n2, n3, s1] whose *)
(* payload is what the production reads from the match:                    *)
(*   ruleNamedDOW n1 = weekday 0..6       ruleNamedMonth n1 = month 1..12  *)
(*   ruleNamedHour n1 = 1..12             ruleEarlyLatePOD s1 = modifier   *)
(*   rulePOD s1 = part of day             ruleDOM1/2 n1 = day              *)
(*   ruleMonthOrdinal n1 = month          ruleYear n1 = year as written    *)
(*   ruleDDMM/ruleMMDD n1 = day n2 = month                                 *)
(*   ruleDDMMYYYY n1 = day n2 = month n3 = year as written                 *)
(*   ruleHHMMmilitary n1 = hour n2 = minute n3 = 1 iff uhr/h  s1 = a|p|X   *)
(*   ruleHHMM n1 = hour n2 = minute or X  s1 = a|p|X                       *)
(*   ruleHHOClock n1 = hour               ruleBefore/AfterTime n1 = negated*)
(*   ruleDigitDuration / ruleNamedNumberDuration n1 = amount s1 = unit     *)
(*   ruleDurationHalf s1 = unit                                            *)
(***************************************************************************)
EXTENDS Values

Tok(id, n1, n2, n3, s1) == [k |-> "R", id |-> id, n1 |-> n1, n2 |-> n2, n3 |-> n3, s1 |-> s1]

Modifiers == {"early", "late", "veryearly", "verylate"}

\* ---- helpers -------------------------------------------------------------
ValidDOY(m, d) == m \in 1..12 /\ d \in 1..DIMAny(m)
DateIfValid(y, m, d) == IF ValidDate(y, m, d) THEN Date(y, m, d) ELSE FAIL   \* INTENDED(C02)
DOYIfValid(m, d) == IF ValidDOY(m, d) THEN DOY(m, d) ELSE FAIL               \* INTENDED(C02)
DateLess(a, b) == \* (y,m,d) of a strictly before b
  a.y < b.y \/ (a.y = b.y /\ a.m < b.m) \/ (a.y = b.y /\ a.m = b.m /\ a.d < b.d)
TsOfDate(t) == MkTs(t.y, t.m, t.d, 0, 0)

\* _maybe_apply_am_pm
ApplyAmPm(t, ap) ==
  IF t.H = 0 \/ ap = "X" THEN t
  ELSE IF ap = "a" THEN (IF t.H = 12 THEN TOD(0, t.M) ELSE t)   \* INTENDED(C06): 12 am is midnight
  ELSE IF t.H < 12 THEN TOD(t.H + 12, t.M) ELSE t

\* _is_valid_military_time
ValidMilitary(ts, h, mi) ==
  LET ty == h * 100 + mi IN
  /\ ty # ts.y
  /\ ty # AddMonths(ts, 3).y
  /\ mi % 5 = 0

\* hour adjustment shared by ruleTODPOD / rulePODInterval
PodPMish(p) == PodKnown(p) /\ PodPM(p)
PodAMish(p) == PodKnown(p) /\ PodAM(p)

RECURSIVE FirstMonthWithDay(_, _, _, _)
\* smallest k >= k0 such that day dd exists in month (ts.y, ts.m) + k and that date is after `after`
FirstMonthWithDay(ts, dd, k, afterDays) ==
  LET t  == ts.y * 12 + (ts.m - 1) + k
      y2 == t \div 12
      m2 == (t % 12) + 1
  IN IF dd <= DIM(y2, m2) /\ DaysFromCivil(y2, m2, dd) > afterDays
     THEN Date(y2, m2, dd)
     ELSE FirstMonthWithDay(ts, dd, k + 1, afterDays)

RECURSIVE FirstYearWithDOY(_, _, _, _)
FirstYearWithDOY(y, mm, dd, minDays) ==
  IF ValidDate(y, mm, dd) /\ DaysFromCivil(y, mm, dd) >= minDays
  THEN Date(y, mm, dd)
  ELSE FirstYearWithDOY(y + 1, mm, dd, minDays)

RECURSIVE FirstDowDom(_, _, _, _)
\* rrule(MONTHLY, dtstart=ts, byweekday=w, bymonthday=dd, count=1)[0]
FirstDowDom(ts, w, dd, k) ==
  LET t  == ts.y * 12 + (ts.m - 1) + k
      y2 == t \div 12
      m2 == (t % 12) + 1
  IN IF dd <= DIM(y2, m2) /\ DaysFromCivil(y2, m2, dd) >= Days(ts)
        /\ WeekdayOfDays(DaysFromCivil(y2, m2, dd)) = w
     THEN Date(y2, m2, dd)
     ELSE FirstDowDom(ts, w, dd, k + 1)

\* number of whole days relativedelta carries for a duration (ruleDurationInterval)
DurDays(dur) ==
  CASE dur.u \in {"days", "nights"} -> dur.n
    [] dur.u = "weeks" -> 7 * dur.n
    [] dur.u = "months" -> 0
    [] dur.u = "hours" -> dur.n \div 24
    [] dur.u = "minutes" -> dur.n \div 1440

MaxYear == 9999
\* the model's arithmetic domain for duration amounts (TLC integers are 32 bit)
AmountInModel(n) == n >= 0 /\ n <= 1000000

\* start of a Time as a timestamp, for "t.dt"
DtTs(t) == DtOf(t)

RuleTimeDuration(t, dur) ==
  LET b == DtTs(t) IN
  IF b = ERR THEN ERR
  ELSE IF dur.u \in {"days", "nights", "weeks", "months"}
  THEN LET e == CASE dur.u \in {"days", "nights"} -> AddDays(b, dur.n)
                  [] dur.u = "weeks" -> AddDays(b, 7 * dur.n)
                  [] dur.u = "months" -> AddMonths(b, dur.n)
       IN IF e.y > MaxYear THEN FAIL                                   \* INTENDED(C01)
          ELSE MkInterval(t, Date(e.y, e.m, e.d))
  ELSE LET e == IF dur.u = "hours" THEN AddMinutes(b, 60 * dur.n) ELSE AddMinutes(b, dur.n)
       IN IF e.y > MaxYear THEN FAIL                                   \* INTENDED(C01)
          ELSE MkInterval(t, DateTime(e.y, e.m, e.d, e.H, e.M))

RuleDurationInterval(dur, iv) ==
  IF Days(TsOfDate(iv.t)) - Days(TsOfDate(iv.f)) = DurDays(dur) THEN iv ELSE FAIL

RuleTODPOD(tod, pod) ==
  \* repaired (fixes 18d3c04, d1bf5c6, C06): hour 0 at night / in the evening is midnight ("0 uhr nachts"); next to an afternoon
  \* part of day it is the hour after noon ("halb eins nachmittags" = 12:30)
  IF tod.H < 12 /\ PodPMish(pod.p) /\ ~(tod.H = 0 /\ ~PodAft(pod.p)) THEN TOD(tod.H + 12, tod.M)
  ELSE IF tod.H > 12 /\ PodAMish(pod.p) THEN FAIL
  ELSE TOD(tod.H, tod.M)

RuleDateInterval(d, i) ==
  LET okEnd(e) == e = NONE \/ isTOD(e) \/ isPOD(e)
      glue(e) == IF e = NONE THEN NONE ELSE MkTime(d.y, d.m, d.d, e.H, e.M, X, e.p)
      f == glue(i.f)
      t == glue(i.t)
  IN IF ~(okEnd(i.f) /\ okEnd(i.t)) THEN FAIL
     ELSE IF f = NONE \/ t = NONE THEN MkInterval(f, t)
     ELSE LET fd == DtOf(f)  td == DtOf(t) IN
          IF fd = ERR \/ td = ERR THEN ERR
          ELSE IF TsLT(fd, td) THEN MkInterval(f, t)
          ELSE IF f.H # X /\ t.H # X /\ f.H <= 12 /\ t.H <= 12 /\ f.H >= t.H
               THEN LET e == AddMinutes(td, 720) IN MkInterval(f, MkTime(e.y, e.m, e.d, e.H, e.M, X, t.p))
               ELSE LET e == AddDays(td, 1) IN MkInterval(f, MkTime(e.y, e.m, e.d, e.H, e.M, X, t.p))

RulePODInterval(p, i) ==
  LET adj(t) == IF t.H = X THEN X ELSE IF t.H < 12 /\ PodPMish(p.p) /\ ~(t.H = 0 /\ ~PodAft(p.p)) THEN t.H + 12 ELSE t.H
      okEnd(e) == e = NONE \/ hasTime(e)
      mk(e) == IF e = NONE THEN NONE ELSE MkTime(e.y, e.m, e.d, adj(e), e.M, e.w, NOPOD)
      bothDT == i.f # NONE /\ i.t # NONE /\ isDateTime(mk(i.f)) /\ isDateTime(mk(i.t))
      amPod == PodAMish(p.p)
      pmHour(e) == e # NONE /\ e.H # X /\ e.H > 12
  IN IF ~(okEnd(i.f) /\ okEnd(i.t)) THEN FAIL
     \* repaired (fix 75130fb, C07): a morning part of day is not merged with afternoon clock times (the guard ruleTODPOD has)
     ELSE IF amPod /\ (pmHour(i.f) \/ pmHour(i.t)) THEN FAIL
     \* repaired (fix a89b919, C02): shifting only the start into the afternoon must not invert a dated interval
     ELSE IF bothDT /\ TsLE(DtOf(mk(i.t)), DtOf(mk(i.f))) THEN FAIL
     ELSE MkInterval(mk(i.f), mk(i.t))

\* ---- the rule base -------------------------------------------------------
Apply(r, ts, a) ==
  CASE r = "ruleAbsorbOnTime" -> a[2]
    [] r = "ruleAbsorbFromInterval" -> a[2]
    [] r = "ruleNamedDOW" -> DOW(a[1].n1)
    [] r = "ruleNamedMonth" -> MonthT(a[1].n1)
    [] r = "ruleNamedHour" -> TOD(a[1].n1, 0)
    [] r = "ruleMidnight" -> TOD(0, 0)
    [] r = "ruleEarlyLatePOD" ->
         LET key == a[1].s1 \o a[2].p IN
         IF PodKnown(key) THEN POD(key) ELSE FAIL                       \* INTENDED(C01,C02,C19)
    [] r = "rulePOD" -> POD(a[1].s1)
    [] r = "ruleDOM1" -> DOM(a[1].n1)
    [] r = "ruleMonthOrdinal" -> MonthT(a[1].n1)
    [] r = "ruleDOM2" -> DOM(a[1].n1)
    [] r = "ruleYear" ->
         LET y == a[1].n1  cc == ts.y \div 100  yy == ts.y % 100 IN
         IF y < 100 THEN (IF y < yy + 10 THEN YearT(cc * 100 + y) ELSE YearT((cc - 1) * 100 + y))
         ELSE YearT(y)
    [] r = "ruleToday" -> DateOfTs(ts)
    [] r = "ruleNow" -> DateTime(ts.y, ts.m, ts.d, ts.H, ts.M)
    [] r = "ruleTomorrow" -> DateOfTs(AddDays(ts, 1))
    [] r = "ruleAfterTomorrow" -> DateOfTs(AddDays(ts, 2))
    [] r = "ruleYesterday" -> DateOfTs(AddDays(ts, -1))
    [] r = "ruleBeforeYesterday" -> DateOfTs(AddDays(ts, -2))
    [] r = "ruleEOM" -> DateOfTs(LastOfMonth(ts))
    [] r = "ruleEOY" -> DateOfTs(LastOfYear(ts))
    [] r = "ruleDOMMonth" -> DOYIfValid(a[2].m, a[1].d)
    [] r = "ruleDOMMonth2" -> DOYIfValid(a[3].m, a[1].d)
    [] r = "ruleMonthDOM" -> DOYIfValid(a[1].m, a[2].d)
    [] r = "ruleAtDOW" ->
         LET dm == NextWeekdayOnOrAfter(ts, a[2].w) IN
         IF SameDate(dm, ts) THEN DateOfTs(AddDays(dm, 7)) ELSE DateOfTs(dm)
    [] r = "ruleNextDOW" -> DateOfTs(NextWeekdayOnOrAfter(AddDays(ts, 7), a[2].w))
    [] r = "ruleDOWNextWeek" -> DateOfTs(NextWeekdayOnOrAfter(AddDays(ts, 7), a[1].w))
    [] r = "ruleDOYYear" -> DateIfValid(a[2].y, a[1].m, a[1].d)
    [] r = "ruleDOWPOD" -> MkTime(X, X, X, X, X, a[1].w, a[2].p)
    [] r = "ruleDOWDOM" -> FirstDowDom(ts, a[1].w, a[2].d, 0)
    [] r = "ruleDOWDate" -> MkTime(a[2].y, a[2].m, a[2].d, X, X, X, a[1].p)
    [] r = "ruleDateDOW" -> MkTime(a[1].y, a[1].m, a[1].d, X, X, X, a[2].p)
    [] r = "ruleLatentDOM" -> FirstMonthWithDay(ts, a[1].d, 0, Days(ts))            \* INTENDED(C04)
    [] r = "ruleLatentDOW" ->
         LET dm == NextWeekdayOnOrAfter(ts, a[1].w) IN
         IF SameDate(dm, ts) THEN DateOfTs(AddDays(dm, 7)) ELSE DateOfTs(dm)
    [] r = "ruleLatentDOY" -> FirstYearWithDOY(ts.y, a[1].m, a[1].d, Days(ts))      \* INTENDED(C04)
    [] r = "ruleLatentPOD" ->
         IF ~PodKnown(a[1].p) THEN ERR
         ELSE LET t0 == SetHM(ts, PodH0(a[1].p), 0)
                  t1 == IF TsLE(t0, ts) THEN AddDays(t0, 1) ELSE t0
              IN MkTime(t1.y, t1.m, t1.d, X, X, X, a[1].p)
    [] r = "ruleDDMM" -> DOYIfValid(a[1].n2, a[1].n1)
    [] r = "ruleMMDD" -> DOYIfValid(a[1].n2, a[1].n1)
    [] r = "ruleDDMMYYYY" ->
         LET y == IF a[1].n3 < 100 THEN a[1].n3 + 2000 ELSE a[1].n3 IN DateIfValid(y, a[1].n2, a[1].n1)
    [] r = "ruleHHMMmilitary" ->
         IF a[1].n3 = 1 \/ ValidMilitary(ts, a[1].n1, a[1].n2)
         THEN ApplyAmPm(TOD(a[1].n1, a[1].n2), a[1].s1) ELSE FAIL
    [] r = "ruleHHMM" -> ApplyAmPm(TOD(a[1].n1, Nz(a[1].n2, 0)), a[1].s1)
    [] r = "ruleHHOClock" -> TOD(a[1].n1, X)
    [] r = "ruleQuarterBeforeHH" ->
         IF a[2].M \notin {X, 0} THEN FAIL
         ELSE IF a[2].H > 0 THEN TOD(a[2].H - 1, 45) ELSE TOD(23, 45)
    [] r = "ruleQuarterAfterHH" -> IF a[2].M \notin {X, 0} THEN FAIL ELSE TOD(a[2].H, 15)
    [] r = "ruleHalfBeforeHH" ->
         IF a[2].M \notin {X, 0} THEN FAIL
         ELSE IF a[2].H > 0 THEN TOD(a[2].H - 1, 30) ELSE TOD(23, 30)
    [] r = "ruleHalfAfterHH" -> IF a[2].M \notin {X, 0} THEN FAIL ELSE TOD(a[2].H, 30)
    [] r = "ruleTODPOD" -> RuleTODPOD(a[1], a[2])
    [] r = "rulePODTOD" -> RuleTODPOD(a[2], a[1])
    [] r = "ruleDateTOD" -> MkTime(a[1].y, a[1].m, a[1].d, a[2].H, a[2].M, X, NOPOD)
    [] r = "ruleTODDate" -> MkTime(a[2].y, a[2].m, a[2].d, a[1].H, a[1].M, X, NOPOD)
    [] r = "ruleDatePOD" -> MkTime(a[1].y, a[1].m, a[1].d, X, X, X, a[2].p)
    [] r = "rulePODDate" -> MkTime(a[2].y, a[2].m, a[2].d, X, X, X, a[1].p)
    [] r = "ruleBeforeTime" -> IF a[1].n1 = 1 THEN MkInterval(a[2], NONE) ELSE MkInterval(NONE, a[2])
    [] r = "ruleAfterTime" -> IF a[1].n1 = 1 THEN MkInterval(NONE, a[2]) ELSE MkInterval(a[2], NONE)
    [] r = "ruleDateDate" -> IF DateLess(a[1], a[3]) THEN MkInterval(a[1], a[3]) ELSE FAIL
    [] r = "ruleDOMDate" ->
         IF a[1].d >= a[3].d THEN FAIL ELSE MkInterval(Date(a[3].y, a[3].m, a[1].d), a[3])
    [] r = "ruleDateDOM" ->
         IF a[1].d >= a[3].d \/ ~ValidDate(a[1].y, a[1].m, a[3].d) THEN FAIL        \* INTENDED(C02)
         ELSE MkInterval(a[1], Date(a[1].y, a[1].m, a[3].d))
    [] r = "ruleDOYDate" ->
         IF a[1].m > a[3].m \/ (a[1].m = a[3].m /\ a[1].d >= a[3].d) THEN FAIL
         ELSE IF ~ValidDate(a[3].y, a[1].m, a[1].d) THEN FAIL                       \* INTENDED(C02)
         ELSE MkInterval(Date(a[3].y, a[1].m, a[1].d), a[3])
    [] r = "ruleDateTimeDateTime" ->
         LET d1 == a[1]  d2 == a[3] IN
         IF DateLess(d2, d1) THEN FAIL
         ELSE IF SameDate(d1, d2) /\ d1.H > d2.H THEN FAIL
         ELSE IF SameDate(d1, d2) /\ d1.H = d2.H /\ Nz(d1.M, 0) >= Nz(d2.M, 0) THEN FAIL
         ELSE MkInterval(d1, d2)
    [] r = "ruleTODTOD" ->
         IF a[1].H > a[3].H /\ a[1].H <= 12 /\ a[3].H <= 12
         THEN MkInterval(a[1], MkTime(X, X, X, a[3].H + 12, a[3].M, X, NOPOD))
         ELSE MkInterval(a[1], a[3])
    [] r = "rulePODPOD" -> MkInterval(a[1], a[3])
    [] r = "ruleDateInterval" -> RuleDateInterval(a[1], a[2])
    [] r = "rulePODInterval" -> RulePODInterval(a[1], a[2])
    [] r = "ruleDigitDuration" -> MkDuration(a[1].n1, a[1].s1)
    [] r = "ruleNamedNumberDuration" -> MkDuration(a[1].n1, a[1].s1)
    [] r = "ruleDurationHalf" ->
         IF a[1].s1 = "hours" THEN MkDuration(30, "minutes")
         ELSE IF a[1].s1 = "days" THEN MkDuration(12, "hours") ELSE FAIL
    [] r = "ruleIntervalConjDuration" -> RuleDurationInterval(a[3], a[1])
    [] r = "ruleIntervalDuration" -> RuleDurationInterval(a[2], a[1])
    [] r = "ruleDurationInterval" -> RuleDurationInterval(a[1], a[2])
    [] r = "ruleTimeDuration" -> RuleTimeDuration(a[1], a[3])

RuleNames == {
  "ruleAbsorbOnTime", "ruleAbsorbFromInterval", "ruleNamedDOW", "ruleNamedMonth", "ruleNamedHour",
  "ruleMidnight", "ruleEarlyLatePOD", "rulePOD", "ruleDOM1", "ruleMonthOrdinal", "ruleDOM2", "ruleYear",
  "ruleToday", "ruleNow", "ruleTomorrow", "ruleAfterTomorrow", "ruleYesterday", "ruleBeforeYesterday",
  "ruleEOM", "ruleEOY", "ruleDOMMonth", "ruleDOMMonth2", "ruleMonthDOM", "ruleAtDOW", "ruleNextDOW",
  "ruleDOWNextWeek", "ruleDOYYear", "ruleDOWPOD", "ruleDOWDOM", "ruleDOWDate", "ruleDateDOW",
  "ruleLatentDOM", "ruleLatentDOW", "ruleLatentDOY", "ruleLatentPOD", "ruleDDMM", "ruleMMDD",
  "ruleDDMMYYYY", "ruleHHMMmilitary", "ruleHHMM", "ruleHHOClock", "ruleQuarterBeforeHH",
  "ruleQuarterAfterHH", "ruleHalfBeforeHH", "ruleHalfAfterHH", "ruleTODPOD", "rulePODTOD", "ruleDateTOD",
  "ruleTODDate", "ruleDatePOD", "rulePODDate", "ruleBeforeTime", "ruleAfterTime", "ruleDateDate",
  "ruleDOMDate", "ruleDateDOM", "ruleDOYDate", "ruleDateTimeDateTime", "ruleTODTOD", "rulePODPOD",
  "ruleDateInterval", "rulePODInterval", "ruleDigitDuration", "ruleNamedNumberDuration",
  "ruleDurationHalf", "ruleIntervalConjDuration", "ruleIntervalDuration", "ruleDurationInterval",
  "ruleTimeDuration"}

\* ---- post-processing of latent times (postprocess_latent.py) --------------
LatentTOD(ts, tod) ==
  LET t0 == SetHM(ts, tod.H, Nz(tod.M, 0))
      t1 == IF TsLE(t0, ts) THEN AddDays(t0, 1) ELSE t0
  IN DateTime(t1.y, t1.m, t1.d, t1.H, t1.M)

LatentInterval(ts, iv) ==
  LET f0 == SetHM(ts, iv.f.H, Nz(iv.f.M, 0))
      t0 == SetHM(ts, iv.t.H, Nz(iv.t.M, 0))
      roll == TsLE(f0, ts)
      f1 == IF roll THEN AddDays(f0, 1) ELSE f0
      t1 == IF roll THEN AddDays(t0, 1) ELSE t0
      \* INTENDED(C07): an end that is not after the start wraps exactly as on an explicit date
      \* (ruleDateInterval): 12 hours later for the implicit am->pm case, else the next day
      t2 == IF TsLT(f1, t1) THEN t1
            ELSE IF iv.f.H <= 12 /\ iv.t.H <= 12 /\ iv.f.H >= iv.t.H THEN AddMinutes(t1, 720)
            ELSE AddDays(t1, 1)
  IN MkInterval(DateTime(f1.y, f1.m, f1.d, f1.H, f1.M), DateTime(t2.y, t2.m, t2.d, t2.H, t2.M))

Postprocess(ts, v) ==
  IF IsTime(v) /\ isTOD(v) THEN LatentTOD(ts, v)
  ELSE IF isTimeInterval(v) THEN LatentInterval(ts, v)
  ELSE v
=============================================================================
