SPECIFICATION Spec
CONSTANTS
  Mode = "C07"
  FirstDay = 18260
  LastDay = 18322
  DayStep = 7
  Minutes <- PairCodes
INVARIANT Inv
CHECK_DEADLOCK FALSE
