---------------------------- MODULE TrainingTrace ----------------------------
(* kind = "samples": what make_partial_rule_dataset / run_corpus emitted for one entry against       *)
(*                   Training!Samples of the independently recorded stream                           *)
(* kind = "mono":    scores (as ranks) the retrained model gives a positive example's trace before   *)
(*                   and after adding k copies of that example                                       *)
EXTENDS Training, Json, IOUtils
Obs == ndJsonDeserialize(IOEnv.QA_OBS_FILE)
VARIABLE l
Reject(o, clause, detail) == PrintT(<<"REJECT", o.id, clause, ToString(detail)>>)
\* the builders take a LIST of entries: the expected output is the concatenation, entry by entry
RECURSIVE ExpectedAll(_, _)
ExpectedAll(entries, k) == IF k > Len(entries) THEN <<>> ELSE Samples(entries[k].cands, entries[k].gold) \o ExpectedAll(entries, k + 1)
Check(o) ==
  IF o.kind = "samples"
  THEN LET e == ExpectedAll(o.entries, 1) IN
       /\ IF Len(o.samples) = Len(e) THEN TRUE ELSE Reject(o, "number-of-samples", Len(e))
       /\ IF Len(o.samples) # Len(e) \/ \A i \in 1..Len(e) : o.samples[i].X = e[i].X THEN TRUE ELSE Reject(o, "sample-is-not-a-trace-prefix", o.builder)
       /\ IF Len(o.samples) # Len(e) \/ \A i \in 1..Len(e) : o.samples[i].y = e[i].y THEN TRUE ELSE Reject(o, "label-not-by-value", o.builder)
  ELSE IF o.after >= o.before THEN TRUE ELSE Reject(o, "duplicating-a-positive-example-lowered-its-score", o.k)
ASSUME TLCSet(7, Obs)
Init == LET O == TLCGet(7) IN l \in 1..Len(O) /\ Check(O[l])
Next == UNCHANGED l
Spec == Init /\ [][Next]_l
=============================================================================
