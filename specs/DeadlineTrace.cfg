SPECIFICATION Spec
INVARIANT Done
CHECK_DEADLOCK FALSE
