SPECIFICATION Spec
CONSTANTS
  Mode = "trimmed"
  L = 4
  P = 3
INVARIANT EmbedInvariant
CHECK_DEADLOCK FALSE
