SPECIFICATION Spec
CONSTANTS
  Mode = "C03"
  FirstDay = 2
  LastDay = 47846
  DayStep = 1
  Minutes <- BoundaryMinutes
INVARIANT Inv
CHECK_DEADLOCK FALSE
