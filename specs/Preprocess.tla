------------------------------ MODULE Preprocess ------------------------------
(***************************************************************************)
(* Text normalisation (ctparse.py:303-318) over character CLASSES:         *)
(*   "S"  separator: whitespace, control/format/private-use (all Z and C   *)
(*        categories),                                                     *)
(*        opening and closing brackets (Ps, Pe), comma, semicolon          *)
(*   "D"  dash: category Pd, U+2010..U+2015, U+2043                        *)
(*   "C"  any other character                                              *)
(* Normalise = runs of separators -> one blank; strip; runs of dashes ->   *)
(* one "-"; strip.  The output alphabet is "B" (blank), "H" (hyphen-minus) *)
(* and "C" (the original character, unchanged).                            *)
(***************************************************************************)
EXTENDS Integers, Sequences, TLC

RECURSIVE CollapseRuns(_, _, _)
\* replace every maximal run of class cls in s by the single symbol sym
CollapseRuns(s, cls, sym) ==
  IF s = <<>> THEN <<>>
  ELSE IF Head(s) = cls
       THEN LET rest == CollapseRuns(Tail(s), cls, sym) IN
            IF Len(s) > 1 /\ s[2] = cls THEN rest ELSE <<sym>> \o rest
       ELSE <<Head(s)>> \o CollapseRuns(Tail(s), cls, sym)
RECURSIVE LStrip(_, _)
LStrip(s, sym) == IF s # <<>> /\ Head(s) = sym THEN LStrip(Tail(s), sym) ELSE s
RECURSIVE RStrip(_, _)
RStrip(s, sym) == IF s # <<>> /\ s[Len(s)] = sym THEN RStrip(SubSeq(s, 1, Len(s) - 1), sym) ELSE s
Strip(s, sym) == RStrip(LStrip(s, sym), sym)

Normalise(s) == Strip(CollapseRuns(Strip(CollapseRuns(s, "S", "B"), "B"), "D", "H"), "B")
\* how the output is classified when it is fed back in
Reclass(s) == [i \in 1..Len(s) |-> CASE s[i] = "B" -> "S" [] s[i] = "H" -> "D" [] OTHER -> "C"]

Classes == {"S", "D", "C"}
CONSTANT MaxLen
VARIABLE txt
Init == txt \in UNION {[1..n -> Classes] : n \in 0..MaxLen}
Next == UNCHANGED txt
Spec == Init /\ [][Next]_txt

N == Normalise(txt)
Idempotent == Normalise(Reclass(N)) = N
NoEdgeBlank == N = <<>> \/ (N[1] # "B" /\ N[Len(N)] # "B")
SingleBlanks == \A i \in 1..(Len(N) - 1) : ~(N[i] = "B" /\ N[i + 1] = "B")
SingleDashes == \A i \in 1..(Len(N) - 1) : ~(N[i] = "H" /\ N[i + 1] = "H")
OnlyOutputAlphabet == \A i \in 1..Len(N) : N[i] \in {"B", "H", "C"}
\* ordinary characters survive, in order
CharsKept == SelectSeq(N, LAMBDA x : x = "C") = SelectSeq(txt, LAMBDA x : x = "C")
\* any run of separators is equivalent to one blank, any run of dashes to one dash
RECURSIVE Squeeze(_)
Squeeze(s) == IF Len(s) < 2 THEN s
              ELSE IF s[1] = s[2] /\ s[1] \in {"S", "D"} THEN Squeeze(Tail(s)) ELSE <<s[1]>> \o Squeeze(Tail(s))
RunsEquivalent == Normalise(Squeeze(txt)) = N
=============================================================================
