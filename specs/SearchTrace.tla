----------------------------- MODULE SearchTrace -----------------------------
(***************************************************************************)
(* Trace validation of the REAL search engine against SearchImpl.          *)
(* A trace is what one run of ctparse._ctparse did, observed through the   *)
(* seams the library exposes (scorer= argument, _match_rule, apply_rule,   *)
(* the virtual clock, the generator protocol):                             *)
(*   S0  i score          initial scoring of candidate sequence i          *)
(*   Chk expired          a deadline check (expired = 1: it raised)        *)
(*   Pop prod             the partial parse taken from the stack           *)
(*   A   rule i res score one rule application (res = "FAIL": declined)    *)
(*   SF  val score emit   score_final of a value; emit = 1 iff yielded     *)
(*   End n                the stream ended after n candidates              *)
(* Unlogged steps of the code (sort/filter/truncate, extension of the      *)
(* stack, skipping pattern matches during emission, the end of the loop)   *)
(* are silent actions TLC fills in.  All traces of a batch (one text, one  *)
(* grammar, one option setting; many scorers / deadlines) are judged in    *)
(* one run: variable tid selects the trace.  A trace is accepted iff TLC   *)
(* finds a behaviour of SearchImpl that consumes all its events and ends   *)
(* in pc = "done"; acceptance is reported per trace via PrintT.            *)
(***************************************************************************)
EXTENDS SearchImpl, Json, IOUtils, SequencesExt

Traces == ndJsonDeserialize(IOEnv.QA_OBS_FILE)

VARIABLES tid, l
tvars == <<vars, tid, l>>

ASSUME TLCSet(7, Traces)
TR == TLCGet(7)
Ev == TR[tid].ev[l]
More == l <= Len(TR[tid].ev)
IsEvent(k) == More /\ Ev.ev = k /\ l' = l + 1 /\ UNCHANGED tid

TInit == Init /\ tid \in 1..Len(TR) /\ l = 1

TScoreInit == IsEvent("S0") /\ idx = Ev.i /\ ~expired /\ ScoreInit(Ev.score)
\* a deadline check that did not raise is folded into the next action of the model; one that
\* raised is Expire followed by the Timeout branch of the current check point
TChk == /\ IsEvent("Chk")
        /\ IF Ev.expired = 1
           THEN /\ CanExpire
                /\ \/ (pc = "init" /\ idx <= Len(InitSeqs)) \/ (pc = "loop" /\ stack # {})
                /\ expired' = TRUE /\ pc' = "done" /\ timedOut' = TRUE
                /\ UNCHANGED <<idx, stack, stackProd, parseProd, out, cur, pend, newEls, work, maxWork>>
           ELSE UNCHANGED vars
TPop == IsEvent("Pop") /\ ~expired /\ Pop /\ Names(cur'.prod) = Ev.prod /\ cur'.score = Ev.score
TApply == /\ IsEvent("A")
          /\ pend # <<>> /\ Head(pend)[1].rule = Ev.rule /\ Head(pend)[2] = Ev.i /\ Head(pend)[1].rhs = Ev.res
          /\ ApplyOne(Ev.score)
TEmit == /\ IsEvent("SF")
         /\ pc = "emit" /\ idx <= Len(cur.prod) /\ ~cur.prod[idx].tok /\ cur.prod[idx].a = Ev.val
         /\ EmitOne(Ev.score)
         /\ (Len(out') = Len(out) + 1) <=> (Ev.emit = 1)
TEnd == /\ IsEvent("End") /\ pc = "done" /\ Len(out) = Ev.n
        /\ (timedOut <=> Ev.timedout = 1)
        /\ UNCHANGED vars

\* silent steps
SkipToken == /\ pc = "emit" /\ idx <= Len(cur.prod) /\ cur.prod[idx].tok
             /\ idx' = idx + 1
             /\ UNCHANGED <<pc, stack, stackProd, parseProd, out, cur, pend, newEls, expired, timedOut, work, maxWork>>
Silent == (InitDone \/ ExpandDone \/ EmitDone \/ Finish \/ SkipToken) /\ UNCHANGED <<tid, l>>

TNext == TScoreInit \/ TChk \/ TPop \/ TApply \/ TEmit \/ TEnd \/ Silent
TSpec == TInit /\ [][TNext]_tvars

\* ---- verdict level (C15, C14): what the run STREAMED, judged against the rewrite system alone, ----
\* ---- independently of whether the run followed SearchImpl step by step                       ----
\* TR[t].y = the candidates yielded: [val, s, e, rules, score]; TR[t].timedout
RECURSIVE ReplayRules(_, _, _)
\* productions reachable from P by applying the rules named rs[k..] in that order, at any window
ReplayRules(P, rs, k) ==
  IF k > Len(rs) THEN P
  ELSE ReplayRules({ApplyRewrite(p, x[1], x[2]) : <<p, x>> \in {<<p, x>> \in P \X (Rewrites \X (1..8)) :
                        x \in Applicable(p) /\ x[1].rule = rs[k] /\ x[1].rhs # "FAIL"}}, rs, k + 1)
Truthful(y) ==
  \E i \in 1..Len(InitSeqs) :
    LET n == Len(InitSeqs[i]) IN
    /\ Len(y.rules) >= n /\ SubSeq(y.rules, 1, n) = Names(InitSeqs[i])
    /\ \E p \in ReplayRules({InitSeqs[i]}, SubSeq(y.rules, n + 1, Len(y.rules)), 1) :
          \E j \in 1..Len(p) : ~p[j].tok /\ p[j].a = y.val /\ p[j].s = y.s /\ p[j].e = y.e
OutBad(t, clause) == PrintT(<<"OUTBAD", t, clause>>)
OutOK(t) ==
  LET ys == TR[t].y  vals == {ys[i].val : i \in 1..Len(ys)} IN
  /\ IF vals \subseteq ValuesOf(Derivable) THEN TRUE ELSE OutBad(t, "unsound")
  /\ IF (TR[t].timedout = 0 /\ Depth = 0) => ValuesOf({p \in Derivable : Reduced(p)}) \subseteq vals
     THEN TRUE ELSE OutBad(t, "incomplete")
  /\ IF \A i, j \in 1..Len(ys) : (i < j /\ ys[i].val = ys[j].val) => ys[i].score < ys[j].score
     THEN TRUE ELSE OutBad(t, "re-emitted-without-better-score")
  /\ IF \A i \in 1..Len(ys) : Truthful(ys[i]) THEN TRUE ELSE OutBad(t, "untruthful-production")
  \* C13: what a run under a deadline streamed is a prefix of what the same run streams without one
  /\ IF IsPrefix(ys, TR[t].full) THEN TRUE ELSE OutBad(t, "not-a-prefix-of-the-untimed-stream")
  /\ IF TR[t].timedout = 1 => CanExpire THEN TRUE ELSE OutBad(t, "timed-out-without-deadline")
  \* C13: the deadline is re-checked before analysing each candidate sequence and before expanding
  \* each partial parse (the check is part of ScoreInit / Pop in SearchImpl)
  /\ IF \A i \in 1..Len(TR[t].ev) : TR[t].ev[i].ev \in {"S0", "Pop"} => (i > 1 /\ TR[t].ev[i - 1].ev = "Chk")
     THEN TRUE ELSE OutBad(t, "no-deadline-check-before-sequence-or-expansion")
ASSUME \A t \in 1..Len(TR) : OutOK(t)

\* acceptance: some behaviour consumed every event of trace tid (reported once per trace)
Accepted == (l = Len(TR[tid].ev) + 1 /\ pc = "done") => PrintT(<<"ACCEPT", tid>>)
\* progress marker for diagnosis of rejections: the longest prefix matched per trace
Progress == PrintT(<<"AT", tid, l>>)
\* the engine-level invariants are evaluated in every state of every validated behaviour
TSound == Sound
TStrictlyBetter == StrictlyBetter
TDepthOK == DepthOK
=============================================================================
