------------------------------- MODULE ApiTrace -------------------------------
(* Judge of C14 observations: ctparse(...) against list(ctparse_gen(...)) under identical          *)
(* arguments, plus the stream produced without latent-time anchoring (dedup rule of the emission). *)
EXTENDS ApiPred, TLC, Json, IOUtils
Obs == ndJsonDeserialize(IOEnv.QA_OBS_FILE)
VARIABLE l
Reject(o, clause, detail) == PrintT(<<"REJECT", o.id, clause, ToString(detail)>>)
Check(o) ==
  /\ IF ResultOK(o.single, o.stream) THEN TRUE ELSE Reject(o, "not-a-best-candidate-of-the-stream", o.single)
  /\ IF AllFinite(o.stream) /\ AllFinite(o.pre) THEN TRUE ELSE Reject(o, "non-finite-score", o.single)
  /\ IF StrictlyBetterStream(o.pre) THEN TRUE ELSE Reject(o, "value-streamed-again-without-better-score", o.pre)
  /\ IF o.single.val.k = "F" => (o.single.rank = -1) THEN TRUE ELSE Reject(o, "empty-result-shape", o.single)
ASSUME TLCSet(7, Obs)
TInit == LET O == TLCGet(7) IN l \in 1..Len(O) /\ Check(O[l])
TNext == UNCHANGED l
TSpec == TInit /\ [][TNext]_l
=============================================================================
