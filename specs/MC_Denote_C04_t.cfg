SPECIFICATION Spec
CONSTANTS
  Mode = "C04"
  FirstDay = 16801
  LastDay = 27027
  DayStep = 1
  Minutes <- ThreeTimes
INVARIANT Inv
CHECK_DEADLOCK FALSE
