SPECIFICATION Spec
CONSTANTS
  MaxLen = 8
INVARIANT Idempotent
INVARIANT NoEdgeBlank
INVARIANT SingleBlanks
INVARIANT SingleDashes
INVARIANT OnlyOutputAlphabet
INVARIANT CharsKept
INVARIANT RunsEquivalent
CHECK_DEADLOCK FALSE
