------------------------------- MODULE TotalTrace -------------------------------
(* C01: one observation = one call of the public API (ctparse / exhaustion of ctparse_gen /        *)
(* debug=True) with what happened: raised, and the shape of what came back.                         *)
EXTENDS Integers, Sequences, TLC, Json, IOUtils
Obs == ndJsonDeserialize(IOEnv.QA_OBS_FILE)
VARIABLE l
Reject(o, clause, detail) == PrintT(<<"REJECT", o.id, clause, ToString(detail)>>)
ShapeOK(o) == o.is_result = 1 /\ o.subject_is_str = 1 /\ o.labels_are_strs = 1
Check(o) ==
  /\ IF o.raised = 0 THEN TRUE ELSE Reject(o, "raised", o.exc)
  /\ IF o.raised = 1 \/ o.terminated = 1 THEN TRUE ELSE Reject(o, "stream-not-terminated", o.entry)
  /\ IF o.raised = 1 \/ ShapeOK(o) THEN TRUE ELSE Reject(o, "result-shape", o.entry)
  /\ IF o.raised = 1 \/ (o.str_ok = 1 /\ o.repr_ok = 1) THEN TRUE ELSE Reject(o, "rendering-raised", o.entry)
  /\ IF o.raised = 1 \/ o.empty_iff_none = 1 THEN TRUE ELSE Reject(o, "empty-resolution-shape", o.entry)
ASSUME TLCSet(7, Obs)
Init == LET O == TLCGet(7) IN l \in 1..Len(O) /\ Check(O[l])
Next == UNCHANGED l
Spec == Init /\ [][Next]_l
=============================================================================
