----------------------------- MODULE SubjectTrace -----------------------------
(* Judge of C10 observations: four parses per arrangement (as is / hashtags removed / time          *)
(* expression removed / both), words and labels as sequences of strings.                             *)
EXTENDS Subject, Json, IOUtils
Obs == ndJsonDeserialize(IOEnv.QA_OBS_FILE)
VARIABLE l
Reject(o, clause, detail) == PrintT(<<"REJECT", o.id, clause, ToString(detail)>>)
Expect(o, clause, cond, detail) == IF cond THEN TRUE ELSE Reject(o, clause, detail)
Check(o) ==
  /\ Expect(o, "labels", o.labels = Labels(o.items), Labels(o.items))
  /\ Expect(o, "subject", SubjectOK(o.items, o.used, o.subj), InertWords(o.items))
  /\ Expect(o, "hashtags-change-resolution", o.val = o.val_nohash, o.val_nohash)
  /\ Expect(o, "hashtags-change-subject", o.subj = o.subj_nohash /\ o.labels_nohash = <<>>, o.subj_nohash)
  /\ Expect(o, "no-match-labels", o.labels_notime = Labels(o.items), Labels(o.items))
  /\ Expect(o, "no-match-subject", o.notime_is_nomatch = 0 \/ o.subj_notime = Pick(o.items, {"I", "O"}), Pick(o.items, {"I", "O"}))
  /\ Expect(o, "no-match-resolution", o.notime_is_nomatch = 0 \/ o.val_notime.k = "F", o.val_notime)
  \* the subject as a STRING is its words joined by single blanks on either path: no double, leading or trailing blank, and '-'
  \* separates words whether or not a time expression was found (strnorm: as is / hashtags removed / time expression removed)
  /\ Expect(o, "subject-string-not-its-words-joined-by-single-blanks", o.strnorm = <<1, 1, 1>>, o.strnorm)
ASSUME TLCSet(7, Obs)
TInit == LET O == TLCGet(7) IN l \in 1..Len(O) /\ Check(O[l]) /\ items = <<>>
TNext == UNCHANGED <<l, items>>
TSpec == TInit /\ [][TNext]_<<l, items>>
=============================================================================
