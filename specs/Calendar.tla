------------------------------ MODULE Calendar ------------------------------
(***************************************************************************)
(* Proleptic Gregorian calendar arithmetic on integers, and the dateutil   *)
(* relativedelta idioms the rule base uses, with their exact clipping      *)
(* semantics.  Epoch: day 0 = 1970-01-01.  All values stay below 2^31.     *)
(* A timestamp is a record [y, m, d, H, M] (minute resolution: the rules   *)
(* never read seconds; every comparison `dm <= ts` in the code compares    *)
(* two values carrying identical sub-minute components).                   *)
(***************************************************************************)
EXTENDS Integers

IsLeap(y) == (y % 4 = 0 /\ y % 100 # 0) \/ y % 400 = 0

DIM(y, m) == CASE m \in {1, 3, 5, 7, 8, 10, 12} -> 31
               [] m \in {4, 6, 9, 11} -> 30
               [] m = 2 -> IF IsLeap(y) THEN 29 ELSE 28

\* longest the month ever is, in any year (day+month without a year)
DIMAny(m) == IF m = 2 THEN 29 ELSE DIM(2001, m)

ValidDate(y, m, d) == m \in 1..12 /\ d >= 1 /\ d <= DIM(y, m)

\* H. Hinnant's days_from_civil, y >= 1
DaysFromCivil(y, m, d) ==
  LET yy  == IF m <= 2 THEN y - 1 ELSE y
      era == yy \div 400
      yoe == yy - era * 400
      mp  == (m + 9) % 12
      doy == (153 * mp + 2) \div 5 + d - 1
      doe == yoe * 365 + yoe \div 4 - yoe \div 100 + doy
  IN  era * 146097 + doe - 719468

CivilFromDays(n) ==
  LET z   == n + 719468
      era == z \div 146097
      doe == z - era * 146097
      yoe == (doe - doe \div 1460 + doe \div 36524 - doe \div 146096) \div 365
      doy == doe - (365 * yoe + yoe \div 4 - yoe \div 100)
      mp  == (5 * doy + 2) \div 153
      d   == doy - (153 * mp + 2) \div 5 + 1
      m   == IF mp < 10 THEN mp + 3 ELSE mp - 9
      y   == yoe + era * 400 + (IF m <= 2 THEN 1 ELSE 0)
  IN  [y |-> y, m |-> m, d |-> d]

\* Monday = 0 ... Sunday = 6 (Python's datetime.weekday()); 1970-01-01 was a Thursday
WeekdayOfDays(n) == (n + 3) % 7

Days(ts) == DaysFromCivil(ts.y, ts.m, ts.d)
Weekday(ts) == WeekdayOfDays(Days(ts))
AbsMin(ts) == Days(ts) * 1440 + ts.H * 60 + ts.M      \* 32-bit in TLC: only for years below ~4000; comparisons use TsLT / TsLE
TsLT(a, b) == Days(a) < Days(b) \/ (Days(a) = Days(b) /\ a.H * 60 + a.M < b.H * 60 + b.M)
TsLE(a, b) == ~TsLT(b, a)

Min(a, b) == IF a <= b THEN a ELSE b

\* ---- construction -------------------------------------------------------
MkTs(y, m, d, H, M) == [y |-> y, m |-> m, d |-> d, H |-> H, M |-> M]
FromDays(n, H, M) == LET c == CivilFromDays(n) IN MkTs(c.y, c.m, c.d, H, M)
FromAbsMin(a) == LET n == a \div 1440  r == a % 1440 IN FromDays(n, r \div 60, r % 60)

\* ---- dateutil.relativedelta idioms --------------------------------------
\* ts + relativedelta(days=k)
AddDays(ts, k) == FromDays(Days(ts) + k, ts.H, ts.M)
\* ts + relativedelta(minutes=k) (hours = 60 k)
AddMinutes(ts, k) == \* overflow-free (days and minutes of the day kept apart)
  LET tot == ts.H * 60 + ts.M + k  r == tot % 1440 IN FromDays(Days(ts) + (tot \div 1440), r \div 60, r % 60)
\* ts + relativedelta(months=k): day clipped to the length of the target month
AddMonths(ts, k) ==
  LET t  == ts.y * 12 + (ts.m - 1) + k
      y2 == t \div 12
      m2 == (t % 12) + 1
  IN  MkTs(y2, m2, Min(ts.d, DIM(y2, m2)), ts.H, ts.M)
AddYears(ts, k) == AddMonths(ts, 12 * k)
\* ts + relativedelta(day=N): absolute day, clipped (!) to the month length
SetDayClipped(ts, dd) == MkTs(ts.y, ts.m, Min(dd, DIM(ts.y, ts.m)), ts.H, ts.M)
\* ts + relativedelta(month=mm, day=dd): year kept, day clipped
SetMonthDayClipped(ts, mm, dd) == MkTs(ts.y, mm, Min(dd, DIM(ts.y, mm)), ts.H, ts.M)
SetHM(ts, h, mi) == MkTs(ts.y, ts.m, ts.d, h, mi)
\* ts + relativedelta(weekday=w): first day on or after ts with that weekday
NextWeekdayOnOrAfter(ts, w) == AddDays(ts, (w - Weekday(ts) + 7) % 7)
\* last day of the month / year of ts
LastOfMonth(ts) == MkTs(ts.y, ts.m, DIM(ts.y, ts.m), ts.H, ts.M)
LastOfYear(ts) == MkTs(ts.y, 12, 31, ts.H, ts.M)

SameDate(a, b) == a.y = b.y /\ a.m = b.m /\ a.d = b.d
=============================================================================
