SPECIFICATION Spec
CONSTANTS
  Mode = "C08"
  FirstDay = 16801
  LastDay = 27027
  DayStep = 1
  Minutes <- Zero
INVARIANT Inv
CHECK_DEADLOCK FALSE
