SPECIFICATION Spec
CONSTANTS
  InitSeqs <- I1_Init
  Rewrites <- I1_Rules
  RuleOrder <- I1_Order
  Depth = 0
  Scores <- S01
  CanExpire = FALSE
  RelNum = 1
  RelDen = 1
PROPERTY Refines
INVARIANT AbsSound
INVARIANT AbsComplete
CHECK_DEADLOCK FALSE
