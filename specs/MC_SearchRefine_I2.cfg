SPECIFICATION Spec
CONSTANTS
  InitSeqs <- I2_Init
  Rewrites <- I2_Rules
  RuleOrder <- I2_Order
  Depth = 0
  Scores <- S01
  CanExpire = FALSE
  RelNum = 1
  RelDen = 1
PROPERTY Refines
INVARIANT AbsSound
INVARIANT AbsComplete
CHECK_DEADLOCK FALSE
