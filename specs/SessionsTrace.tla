---------------------------- MODULE SessionsTrace ----------------------------
(* Judge of C12 observations.  A result of a call / a stream step is projected to a digest string  *)
(* of the tuple (resolution, span, score, production, subject, labels); snapshots of the module-   *)
(* level state (rule registry, compiled patterns, model) and of the arguments are digests too.     *)
(*   got[i]  what actor i observed (sequence of digests), solo[i] what a fresh process observes    *)
(*   exact[i] = 1: must be equal (stream run to its end, plain call); 0: must be a prefix          *)
EXTENDS Integers, Sequences, SequencesExt, TLC, Json, IOUtils
Obs == ndJsonDeserialize(IOEnv.QA_OBS_FILE)
VARIABLE l
Reject(o, clause, detail) == PrintT(<<"REJECT", o.id, clause, ToString(detail)>>)
Check(o) ==
  /\ \A i \in 1..Len(o.got) :
       IF (o.exact[i] = 1 /\ o.got[i] = o.solo[i]) \/ (o.exact[i] = 0 /\ IsPrefix(o.got[i], o.solo[i]))
       THEN TRUE ELSE Reject(o, "result-differs-from-fresh-process", i)
  /\ IF o.snap0 = o.snap1 THEN TRUE ELSE Reject(o, "module-state-changed", o.kind)
  /\ IF o.args0 = o.args1 THEN TRUE ELSE Reject(o, "arguments-modified", o.kind)
ASSUME TLCSet(7, Obs)
Init == LET O == TLCGet(7) IN l \in 1..Len(O) /\ Check(O[l])
Next == UNCHANGED l
Spec == Init /\ [][Next]_l
=============================================================================
