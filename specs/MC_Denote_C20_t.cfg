SPECIFICATION Spec
CONSTANTS
  Mode = "C20"
  FirstDay = 16801
  LastDay = 27027
  DayStep = 7
  Minutes <- AllMinutes
INVARIANT Inv
CHECK_DEADLOCK FALSE
