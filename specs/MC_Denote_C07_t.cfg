SPECIFICATION Spec
CONSTANTS
  Mode = "C07"
  FirstDay = 18231
  LastDay = 18326
  DayStep = 1
  Minutes <- PairCodes
INVARIANT Inv
CHECK_DEADLOCK FALSE
