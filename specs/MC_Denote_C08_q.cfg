SPECIFICATION Spec
CONSTANTS
  Mode = "C08q"
  FirstDay = 16801
  LastDay = 27027
  DayStep = 1
  Minutes <- Zero
INVARIANT Inv
CHECK_DEADLOCK FALSE
