SPECIFICATION Spec
CONSTANTS
  Mode = "C04q"
  FirstDay = 16801
  LastDay = 27027
  DayStep = 1
  Minutes <- Noon
INVARIANT Inv
CHECK_DEADLOCK FALSE
