SPECIFICATION Spec
CONSTANTS
  K = 7
  Fam = "range"
  NTs = 8
INVARIANT NoRaise
INVARIANT AllWF
INVARIANT PodsKnown
INVARIANT AccessorsTotal
INVARIANT PostWF
PROPERTY Decreasing
CHECK_DEADLOCK FALSE
