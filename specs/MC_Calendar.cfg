SPECIFICATION Spec
CONSTANTS
  FirstDay = 0
  LastDay = 47846
INVARIANT RoundTrip
INVARIANT Succ
INVARIANT WeekPeriod
INVARIANT Idioms
CHECK_DEADLOCK FALSE
