------------------------------ MODULE DeriveText ------------------------------
(***************************************************************************)
(* C15 on the REAL rule base: what one run of the search streamed for one  *)
(* text, judged against the rewriting system of Rules.tla / RuleTable.tla. *)
(* An observation carries the reference time, the candidate sequences of   *)
(* pattern matches the engine started from (tokens with their payload) and *)
(* every streamed candidate (value + production trace).                    *)
(*   truthful  each candidate's production trace, replayed rule by rule    *)
(*             with Rules!Apply from its candidate sequence (TLC infers    *)
(*             the windows), reaches a production containing its value     *)
(*   sound     (small texts) every streamed value occurs in the closure    *)
(*   complete  (small texts, no depth limit) every value of every fully    *)
(*             reduced production of the closure is streamed               *)
(*   stable    the candidate did not change between its yield and the end  *)
(*             of the stream (value and span)                              *)
(***************************************************************************)
EXTENDS Rules, RuleTable, TLC, Json, IOUtils

Obs == ndJsonDeserialize(IOEnv.QA_OBS_FILE)
VARIABLE l

ElemMatches(pe, v) ==
  CASE pe.t = "R" -> IsToken(v) /\ v.id = pe.id
    [] OTHER -> ~IsToken(v) /\ Pred(pe.n, v)
WindowOK(prod, r, i) ==
  LET pat == RulePat[r] IN
  /\ i + Len(pat) - 1 <= Len(prod)
  /\ \A j \in 1..Len(pat) : ElemMatches(pat[j], prod[i + j - 1])
Res(prod, r, i, ts) == Apply(r, ts, SubSeq(prod, i, i + Len(RulePat[r]) - 1))
Rewritten(prod, r, i, ts) ==
  SubSeq(prod, 1, i - 1) \o <<Res(prod, r, i, ts)>> \o SubSeq(prod, i + Len(RulePat[r]), Len(prod))
Succs(prod, r, ts) ==
  {Rewritten(prod, r, i, ts) : i \in {j \in 1..Len(prod) : WindowOK(prod, r, j) /\ Res(prod, r, j, ts) \notin {FAIL, ERR}}}

RECURSIVE Replay(_, _, _, _)
Replay(Prods, rs, k, ts) ==
  IF k > Len(rs) \/ Prods = {} THEN Prods
  ELSE Replay(UNION {Succs(p, rs[k], ts) : p \in Prods}, rs, k + 1, ts)

Ids(seq) == [i \in 1..Len(seq) |-> seq[i].id]
Truthful(o, c) ==
  \E i \in 1..Len(o.init) :
    /\ Ids(o.init[i]) = c.ids
    /\ \E p \in Replay({o.init[i]}, c.rules, 1, o.ts) : \E j \in 1..Len(p) : p[j] = c.val

AllSuccs(p, ts) == UNION {Succs(p, r, ts) : r \in RuleNames}
RECURSIVE Closure(_, _)
Closure(Prods, ts) == LET Q == Prods \cup UNION {AllSuccs(p, ts) : p \in Prods} IN IF Q = Prods THEN Prods ELSE Closure(Q, ts)
Reduced(p, ts) == AllSuccs(p, ts) = {}
ValuesOf(Prods) == UNION {{p[j] : j \in {k \in 1..Len(p) : IsValue(p[k])}} : p \in Prods}

Reject(o, clause, detail) == PrintT(<<"REJECT", o.id, clause, ToString(detail)>>)
Check(o) ==
  LET cands == {o.cands[i] : i \in 1..Len(o.cands)}
      vals == {c.val : c \in cands}
      cl == IF o.small = 1 THEN Closure({o.init[i] : i \in 1..Len(o.init)}, o.ts) ELSE {}
  IN
  /\ \A c \in cands : IF Truthful(o, c) THEN TRUE ELSE Reject(o, "untruthful-production", c)
  /\ \A c \in cands : IF c.val = c.val1 /\ c.s = c.s1 /\ c.e = c.e1 THEN TRUE ELSE Reject(o, "changed-after-yield", c)
  /\ \A c \in cands : IF WellFormed(c.val) THEN TRUE ELSE Reject(o, "ill-formed", c)
  /\ IF o.small = 1 /\ ~(vals \subseteq ValuesOf(cl)) THEN Reject(o, "unsound", vals \ ValuesOf(cl)) ELSE TRUE
  /\ IF o.small = 1 /\ o.depth = 0 /\ ~(ValuesOf({p \in cl : Reduced(p, o.ts)}) \subseteq vals)
     THEN Reject(o, "incomplete", ValuesOf({p \in cl : Reduced(p, o.ts)}) \ vals) ELSE TRUE

ASSUME TLCSet(7, Obs)
Init == LET O == TLCGet(7) IN l \in 1..Len(O) /\ Check(O[l])
Next == UNCHANGED l
Spec == Init /\ [][Next]_l
=============================================================================
