---------------------------- MODULE PreprocessTrace ----------------------------
(* Judge of observations of the real _preprocess_string: the input as a class string, the output   *)
(* as a string over "B" (blank), "H" (hyphen-minus), "C" (an input character of class C, in order  *)
(* and unchanged: flag same = 1), "?" anything else.                                               *)
EXTENDS Preprocess, Json, IOUtils
Obs == ndJsonDeserialize(IOEnv.QA_OBS_FILE)
VARIABLE l
Reject(o, clause, detail) == PrintT(<<"REJECT", o.id, clause, ToString(detail)>>)
Check(o) ==
  /\ IF o.out = Normalise(o.cls) /\ o.same = 1 THEN TRUE ELSE Reject(o, "normalise", Normalise(o.cls))
  /\ IF o.again = o.out THEN TRUE ELSE Reject(o, "not-idempotent", o.out)
ASSUME TLCSet(7, Obs)
TInit == LET O == TLCGet(7) IN l \in 1..Len(O) /\ Check(O[l]) /\ txt = <<>>
TNext == UNCHANGED <<l, txt>>
TSpec == TInit /\ [][TNext]_<<l, txt>>
=============================================================================
