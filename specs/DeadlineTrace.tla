----------------------------- MODULE DeadlineTrace -----------------------------
(***************************************************************************)
(* C13 on the real grammar: one trace = one run of the real parser under a *)
(* virtual clock with the deadline placed at one particular clock read.    *)
(*   Chk e   a deadline check; e = 1: it raised                            *)
(*   W n     n units of work (scorings, rule applications) with no check   *)
(*           in between                                                    *)
(*   WI n    n units of work of the initial phase (rule pre-filter and     *)
(*           first scoring of a candidate sequence)                        *)
(*   Y       a candidate was yielded                                       *)
(*   End     the stream ended                                              *)
(* Accepted iff                                                            *)
(*   bound    work between two checks <= bound (bound = 2 R L + L + 2 for  *)
(*            R rules and productions of at most L elements: it does not   *)
(*            mention the number of candidate sequences); in the initial   *)
(*            phase at most 2: one pre-filter + one scoring per check      *)
(*   stop     after the first check that raised: no work, no yield         *)
(*   prefix   the candidates produced are a prefix of those produced       *)
(*            without timeout                                              *)
(*   best     ctparse() under the same deadline returns a best-scoring     *)
(*            candidate of what was produced, or the empty result          *)
(*   clean    the run did not raise                                        *)
(*   nolimit  with timeout 0 no check ever raises                          *)
(*   onTime   a check raises iff more than <deadline> clock ticks have     *)
(*            passed since the deadline function was created (whatever the *)
(*            unit of a tick: picoseconds to 1e300 s)                      *)
(***************************************************************************)
EXTENDS Integers, Sequences, SequencesExt, TLC, Json, IOUtils

Traces == ndJsonDeserialize(IOEnv.QA_OBS_FILE)
ASSUME TLCSet(7, Traces)
TR == TLCGet(7)

VARIABLES tid, l, w, dead, bad
vars == <<tid, l, w, dead, bad>>

Ev == TR[tid].ev[l]
Init == tid \in 1..Len(TR) /\ l = 1 /\ w = 0 /\ dead = FALSE /\ bad = "ok"
Flag(cond, clause) == IF bad = "ok" /\ cond THEN clause ELSE bad
Step ==
  /\ l <= Len(TR[tid].ev)
  /\ l' = l + 1 /\ UNCHANGED tid
  /\ CASE Ev.ev = "Chk" -> /\ w' = 0 /\ dead' = (dead \/ Ev.expired = 1)
                           /\ bad' = IF dead THEN Flag(TRUE, "check-after-timeout")
                                     \* el = clock ticks since the deadline function was created; the deadline lies after
                                     \* <deadline> ticks: the first check beyond it - and no earlier one - notices
                                     ELSE IF TR[tid].deadline > 0 /\ Ev.el > TR[tid].deadline /\ Ev.expired = 0
                                          THEN Flag(TRUE, "deadline-passed-unnoticed")
                                     ELSE IF TR[tid].deadline > 0 /\ Ev.el <= TR[tid].deadline /\ Ev.expired = 1
                                          THEN Flag(TRUE, "expired-before-the-deadline")
                                     ELSE bad
       [] Ev.ev = "W" -> /\ w' = w + Ev.n /\ dead' = dead
                         /\ bad' = IF dead THEN Flag(TRUE, "work-after-timeout") ELSE Flag(w + Ev.n > TR[tid].bound, "work-bound")
       [] Ev.ev = "WI" -> /\ w' = w + Ev.n /\ dead' = dead
                          /\ bad' = IF dead THEN Flag(TRUE, "work-after-timeout") ELSE Flag(w + Ev.n > 2, "initial-phase-work-bound")
       [] Ev.ev = "Y" -> /\ w' = w /\ dead' = dead /\ bad' = Flag(dead, "yield-after-timeout")
       [] Ev.ev = "End" -> /\ w' = w /\ dead' = dead
                           /\ bad' = Flag(Ev.raised = 1, "raised")
Next == Step
Spec == Init /\ [][Next]_vars

Same(a, b) == a.val = b.val /\ a.prod = b.prod /\ a.rank = b.rank
FinalOK(t) ==
  LET o == TR[t] IN
  /\ IF IsPrefix(o.out, o.full) THEN TRUE ELSE PrintT(<<"REJECT", t, "not-a-prefix">>)
  /\ IF (o.single.val.k = "F" /\ o.out = <<>>) \/
        (o.single.val.k # "F" /\ (\E i \in 1..Len(o.out) : Same(o.single, o.out[i]))
                              /\ (\A i \in 1..Len(o.out) : o.out[i].rank <= o.single.rank))
     THEN TRUE ELSE PrintT(<<"REJECT", t, "single-result-not-best-of-partial-stream">>)
  /\ IF o.deadline = 0 => (\A i \in 1..Len(o.ev) : o.ev[i].ev = "Chk" => o.ev[i].expired = 0)
     THEN TRUE ELSE PrintT(<<"REJECT", t, "timeout-zero-expired">>)
ASSUME \A t \in 1..Len(TR) : FinalOK(t)

\* reported once per trace when all its events are consumed
Done == (l = Len(TR[tid].ev) + 1) => PrintT(IF bad = "ok" THEN <<"ACCEPT", tid>> ELSE <<"REJECT", tid, bad>>)
=============================================================================
