SPECIFICATION Spec
CONSTANTS
  Mode = "C05"
  FirstDay = 7305
  LastDay = 21914
  DayStep = 1
  Minutes <- Zero
INVARIANT Inv
CHECK_DEADLOCK FALSE
