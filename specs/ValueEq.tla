------------------------------- MODULE ValueEq -------------------------------
(* C18: resolutions compare, hash and print by VALUE.  An observation is a pair of real objects     *)
(* (A, B) of one kind built with different character spans, projected to Values.tla records, with   *)
(* what the implementation said: eq (A == B), heq (hash(A) == hash(B)), nbeq (A.nb_str() ==         *)
(* B.nb_str()), and RA = the value parsed back from A's printed form (or FAIL if that raised).      *)
EXTENDS Values, TLC, Json, IOUtils
Obs == ndJsonDeserialize(IOEnv.QA_OBS_FILE)
VARIABLE l
Reject(o, clause, detail) == PrintT(<<"REJECT", o.id, clause, ToString(detail)>>)
Expect(o, clause, cond, detail) == IF cond THEN TRUE ELSE Reject(o, clause, detail)
Check(o) ==
  /\ Expect(o, "equality-by-value", (o.eq = 1) <=> (o.A = o.B), o.A = o.B)
  /\ Expect(o, "equal-values-equal-hashes", (o.A = o.B) => (o.heq = 1), o.A)
  /\ Expect(o, "printed-form-injective", (o.nbeq = 1) <=> (o.A = o.B), o.A = o.B)
  /\ Expect(o, "printed-form-round-trip", o.RA = o.A, o.A)
ASSUME TLCSet(7, Obs)
Init == LET O == TLCGet(7) IN l \in 1..Len(O) /\ Check(O[l])
Next == UNCHANGED l
Spec == Init /\ [][Next]_l
=============================================================================
