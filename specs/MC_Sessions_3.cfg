SPECIFICATION Spec
CONSTANTS
  NSess = 3
  Steps <- St3
  MaxAbandon = 1
  MaxCrash = 1
INVARIANT PrefixOfSolo
INVARIANT GlobalsUntouched
INVARIANT Export
CHECK_DEADLOCK FALSE
