------------------------------ MODULE MC_Denote ------------------------------
(***************************************************************************)
(* R1 for the denotational properties: for every reference time of the     *)
(* sweep and every abstract expression, the value the RULES build (the     *)
(* composition of Rules!Apply along the derivation the grammar intends)    *)
(* equals the DECLARATIVE denotation of Denote.tla, which is written from  *)
(* the property texts.  One state per (day, minute-of-day) of the sweep;   *)
(* the invariant of the selected mode quantifies over the expressions.     *)
(* Rules.tla is bound to the code by the rule rows (RulesTrace); Denote is *)
(* bound to the code by the end-to-end observations (DenoteTrace).         *)
(***************************************************************************)
EXTENDS Denote, TLC

CONSTANTS Mode,        \* which property family
          FirstDay, LastDay, DayStep,   \* sweep of reference / start days (days since epoch)
          Minutes      \* set of minutes of the day for the reference time
VARIABLES n, hm, lvl
vars == <<n, hm, lvl>>

\* TLC computes initial states with ONE thread; successors are computed by all workers.  So the
\* sweep is a two-level tree: NChunks chunk states (lvl = 0), each expanding into its share of
\* the (day, minute) states (lvl = 1), where the invariant is evaluated - in parallel.
NChunks == 256
DaySet == {d \in FirstDay..LastDay : (d - FirstDay) % DayStep = 0}
Init == lvl = 0 /\ n \in 0..(NChunks - 1) /\ hm = 0
Next == /\ lvl = 0
        /\ lvl' = 1
        /\ n' \in {d \in DaySet : d % NChunks = n}
        /\ hm' \in Minutes
Spec == Init /\ [][Next]_vars

ts == FromDays(n, hm \div 60, hm % 60)
c0 == CivilFromDays(n)

T0(id) == Tok(id, X, X, X, "X")
T1(id, a) == Tok(id, a, X, X, "X")
DayX(dk, a, b, c) == [dk |-> dk, n1 |-> a, n2 |-> b, n3 |-> c, s |-> "X"]
A1(r, x) == Apply(r, ts, <<x>>)
A2(r, x, y) == Apply(r, ts, <<x, y>>)
A3(r, x, y, z) == Apply(r, ts, <<x, y, z>>)
DowV(w) == A1("ruleNamedDOW", T1(102, w))

\* ---- C03 -------------------------------------------------------------------
C03Inv ==
  /\ A1("ruleToday", T0(112)) = DenoteDay(DayX("rel", 0, X, X), ts)
  /\ A1("ruleTomorrow", T0(114)) = DenoteDay(DayX("rel", 1, X, X), ts)
  /\ A1("ruleAfterTomorrow", T0(115)) = DenoteDay(DayX("rel", 2, X, X), ts)
  /\ A1("ruleYesterday", T0(116)) = DenoteDay(DayX("rel", -1, X, X), ts)
  /\ A1("ruleBeforeYesterday", T0(117)) = DenoteDay(DayX("rel", -2, X, X), ts)
  /\ A1("ruleNow", T0(113)) = DenoteDay(DayX("now", X, X, X), ts)
  /\ A1("ruleEOM", T0(118)) = DenoteDay(DayX("eom", X, X, X), ts)
  /\ A1("ruleEOY", T0(119)) = DenoteDay(DayX("eoy", X, X, X), ts)
  /\ \A w \in 0..6 :
       /\ A1("ruleLatentDOW", DowV(w)) = DenoteDay(DayX("dow", w, X, X), ts)
       /\ A2("ruleAtDOW", T0(121), DowV(w)) = DenoteDay(DayX("thisdow", w, X, X), ts)
       /\ A2("ruleNextDOW", T0(122), DowV(w)) = DenoteDay(DayX("nextdow", w, X, X), ts)
       /\ A2("ruleDOWNextWeek", DowV(w), T0(123)) = DenoteDay(DayX("nextdow", w, X, X), ts)
       \* absorbing "on/at/am" in front of the anchored date changes nothing
       /\ A2("ruleAbsorbOnTime", T0(100), A1("ruleLatentDOW", DowV(w))) = DenoteDay(DayX("dow", w, X, X), ts)

\* ---- C04 -------------------------------------------------------------------
DoyPairs == {<<m, d>> \in (1..12) \X (1..31) : ValidDOY(m, d)}
\* quick subset: month ends, leap day, today's neighbourhood
DoyPairsQ == {p \in DoyPairs : p[2] \in {1, 28, 29, 30, 31} \/ (p[1] = c0.m /\ p[2] \in {c0.d - 1, c0.d, c0.d + 1})}
BasePods == {"first", "last", "earlymorning", "lateevening", "morning", "forenoon", "afternoon", "noon",
             "evening", "night"}
C04Body(pairs, pods) ==
  /\ \A w \in 0..6 :
       LET r == A1("ruleLatentDOW", DowV(w)) IN NearestFuture(DayX("dow", w, X, X), ts, r) /\ r.w = X
  /\ \A d \in 1..31 :
       LET r == A1("ruleLatentDOM", DOM(d)) IN
       /\ r = DenoteDay(DayX("dom", d, X, X), ts)
       /\ NearestFuture(DayX("dom", d, X, X), ts, r) /\ r.d = d
  /\ \A p \in pairs :
       LET doy == A2("ruleDOMMonth", DOM(p[2]), MonthT(p[1]))
           r == A1("ruleLatentDOY", doy) IN
       /\ doy = DOY(p[1], p[2])
       /\ A1("ruleDDMM", Tok(124, p[2], p[1], X, "X")) = doy
       /\ r = DenoteDay(DayX("doy", p[2], p[1], X), ts)
       /\ NearestFuture(DayX("doy", p[2], p[1], X), ts, r) /\ r.d = p[2] /\ r.m = p[1]
  /\ \A p \in pods :
       LET r == A1("ruleLatentPOD", POD(p))
           e == [dk |-> "pod", n1 |-> X, n2 |-> X, n3 |-> X, s |-> p] IN
       /\ r = DenoteDay(e, ts)
       /\ DaysFromCivil(r.y, r.m, r.d) \in {n, n + 1} /\ r.p = p
C04Quick == C04Body(DoyPairsQ, BasePods \cap DOMAIN PodTable)
C04Full == C04Body(DoyPairs, DOMAIN PodTable)

\* ---- C05: here (n) is the DATE that is written; ts ranges over reference times --------------
RefSet == {MkTs(2018, 3, 7, 12, 43), MkTs(1999, 12, 31, 23, 59), MkTs(2020, 2, 29, 0, 0),
           MkTs(c0.y, 1, 1, 0, 0), MkTs(c0.y - 1, 11, 15, 8, 30), MkTs(2029, 6, 30, 18, 5)}
C05Inv ==
  LET y == c0.y  m == c0.m  d == c0.d  want == Date(y, m, d)
      doyA(t) == Apply("ruleDOMMonth", t, <<Apply("ruleDOM1", t, <<T1(108, d)>>), Apply("ruleNamedMonth", t, <<T1(103, m)>>)>>)
      doyB(t) == Apply("ruleMonthDOM", t, <<Apply("ruleNamedMonth", t, <<T1(103, m)>>), Apply("ruleDOM2", t, <<T1(110, d)>>)>>)
      doyC(t) == Apply("ruleDOMMonth2", t, <<Apply("ruleDOM2", t, <<T1(110, d)>>), T0(120), Apply("ruleNamedMonth", t, <<T1(103, m)>>)>>)
      yr(t) == Apply("ruleYear", t, <<T1(111, y)>>)
  IN \A t \in RefSet :
       /\ Apply("ruleDDMMYYYY", t, <<Tok(126, d, m, y, "X")>>) = want
       /\ (y >= 2000 => Apply("ruleDDMMYYYY", t, <<Tok(126, d, m, y - 2000, "X")>>) = want)
       /\ yr(t) = YearT(y)
       /\ Apply("ruleDOYYear", t, <<doyA(t), yr(t)>>) = want
       /\ Apply("ruleDOYYear", t, <<doyB(t), yr(t)>>) = want
       /\ Apply("ruleDOYYear", t, <<doyC(t), yr(t)>>) = want
       /\ \A H \in {0, 9, 23} : \A M \in {0, 5, 59} :
            LET tod == Apply("ruleHHMM", t, <<Tok(128, H, M, X, "X")>>) IN
            /\ Apply("ruleDateTOD", t, <<want, tod>>) = DateTime(y, m, d, H, M)
            /\ Apply("ruleTODDate", t, <<tod, want>>) = DateTime(y, m, d, H, M)
       \* the date does not decay under the weekday it may be written with
       /\ Apply("ruleDOWDate", t, <<DOW(WeekdayOfDays(n)), want>>) = want

\* ---- C06: hm is the REQUESTED minute; (n) the reference date; ref minutes are quantified -----
ReqH == hm \div 60
ReqM == hm % 60
H12 == IF ReqH % 12 = 0 THEN 12 ELSE ReqH % 12
AP == IF ReqH < 12 THEN "a" ELSE "p"
Want == TOD(ReqH, ReqM)
C06Notations ==
  /\ A1("ruleHHMM", Tok(128, ReqH, ReqM, X, "X")) = Want                      \* H:MM H.MM HhMM
  /\ A1("ruleHHMM", Tok(128, H12, ReqM, X, AP)) = Want                        \* h:mm am/pm
  /\ (ReqM = 0) =>
       /\ A1("ruleHHMM", Tok(128, ReqH, X, X, "X")) = Want                    \* H, H Uhr, Hh
       /\ NormTOD(A1("ruleHHOClock", T1(129, ReqH))) = Want
       /\ A1("ruleHHMM", Tok(128, H12, X, X, AP)) = Want                      \* h am/pm
       /\ (ReqH \in 1..12 => A1("ruleNamedHour", T1(104, ReqH)) = Want)       \* named hour
       /\ (ReqH = 0 => A1("ruleMidnight", T0(105)) = Want)
       \* <hour> in the <part of day>: afternoon/evening/night make hours below 12 pm
       /\ (ReqH >= 13 => \A p \in {"afternoon", "evening", "night"} \cap DOMAIN PodTable :
              A2("ruleTODPOD", A1("ruleHHMM", Tok(128, ReqH - 12, X, X, "X")), A1("rulePOD", Tok(107, X, X, X, p))) = Want)
       \* hour 0 next to an afternoon part of day is noon's hour ("halb eins nachmittags" reaches the rule as 0:30)
       /\ (ReqH = 12 => A2("ruleTODPOD", A1("ruleHHMM", Tok(128, 0, X, X, "X")), A1("rulePOD", Tok(107, X, X, X, "afternoon"))) = Want)
       \* hour 0 at night / in the evening / in the morning is midnight ("0 uhr nachts"; repaired in 18d3c04, d1bf5c6)
       /\ (ReqH = 0 => \A p \in {"evening", "night", "morning"} \cap DOMAIN PodTable :
              A2("ruleTODPOD", A1("ruleHHMM", Tok(128, 0, X, X, "X")), A1("rulePOD", Tok(107, X, X, X, p))) = Want)
       /\ (ReqH \in 1..11 => \A p \in {"morning", "forenoon"} \cap DOMAIN PodTable :
              A2("ruleTODPOD", A1("ruleHHMM", Tok(128, ReqH, X, X, "X")), A1("rulePOD", Tok(107, X, X, X, p))) = Want)
  /\ (ReqM % 5 = 0 /\ ReqH * 100 + ReqM \notin {ts.y, AddMonths(ts, 3).y}) =>
       A1("ruleHHMMmilitary", Tok(127, ReqH, ReqM, 0, "X")) = Want             \* HHMM
  /\ A1("ruleHHMMmilitary", Tok(127, ReqH, ReqM, 1, "X")) = Want               \* HHMM Uhr
  /\ (ReqM = 15) => A2("ruleQuarterAfterHH", T0(131), TOD(ReqH, 0)) = Want
  /\ (ReqM = 45) => A2("ruleQuarterBeforeHH", T0(130), TOD((ReqH + 1) % 24, 0)) = Want
  /\ (ReqM = 30) => /\ A2("ruleHalfAfterHH", T0(133), TOD(ReqH, 0)) = Want
                    /\ A2("ruleHalfBeforeHH", T0(132), TOD((ReqH + 1) % 24, 0)) = Want
RefMinutesQ == {0, 1, 719, 1439, hm, (hm + 1) % 1440, (hm + 1439) % 1440}
C06Latent(refs) ==
  \A rm \in refs :
    LET t == FromDays(n, rm \div 60, rm % 60)
        r == Postprocess(t, Want)
        C == [ck |-> "hm", h |-> ReqH, mi |-> ReqM] IN
    /\ r = DenoteClockLatent(C, t)
    /\ r.H = ReqH /\ r.M = ReqM
    /\ TimeAbs(r) > AbsMin(t) /\ TimeAbs(r) <= AbsMin(t) + 1440
C06Quick == C06Notations /\ C06Latent(RefMinutesQ)
C06Full == C06Notations /\ C06Latent(0..1439)

\* ---- C07: hm encodes the hour pair (a, b) = (hm \div 24, hm % 24); n the date ---------------
PA == hm \div 24
PB == hm % 24
MinVariants == {<<0, 0>>, <<30, 0>>, <<0, 30>>, <<30, 35>>, <<35, 30>>}
C07Clock ==
  \A mv \in MinVariants :
    LET A == [ck |-> "hm", h |-> PA, mi |-> mv[1]]
        B == [ck |-> "hm", h |-> PB, mi |-> mv[2]]
        iv == A3("ruleTODTOD", TOD(PA, mv[1]), T0(136), TOD(PB, mv[2]))
        d == Date(c0.y, c0.m, c0.d)
        onDate == A2("ruleDateInterval", d, iv)
    IN /\ ClockRangeBareOK(A, B, iv)
       /\ ClockRangeOnDateOK(d, A, B, onDate)
       /\ ClockRangeLatentOK(ts, A, B, Postprocess(ts, iv))
       /\ WellFormed(onDate) /\ WellFormed(Postprocess(ts, iv))
       \* "from/between" in front changes nothing
       /\ A2("ruleAbsorbFromInterval", T0(101), onDate) = onDate
C07Dates ==
  \A k \in {-400, -31, -1, 0, 1, 2, 30, 365} :
    LET d1 == Date(c0.y, c0.m, c0.d)
        c2 == CivilFromDays(n + k)
        d2 == Date(c2.y, c2.m, c2.d)
        r == A3("ruleDateDate", d1, T0(136), d2)
    IN /\ DateRangeOK(d1, d2, r)
       /\ (k > 0 => r = MkInterval(d1, d2))
       /\ (k <= 0 => r = FAIL)
       /\ (k > 0 /\ c2.m = c0.m /\ c2.y = c0.y) =>
            /\ A3("ruleDOMDate", DOM(c0.d), T0(136), d2) = MkInterval(d1, d2)
            /\ A3("ruleDateDOM", d1, T0(136), DOM(c2.d)) = MkInterval(d1, d2)
       /\ (k > 0 /\ c2.y = c0.y) => A3("ruleDOYDate", DOY(c0.m, c0.d), T0(136), d2) = MkInterval(d1, d2)
C07Half ==
  LET d == Date(c0.y, c0.m, c0.d)  x == DateTime(c0.y, c0.m, c0.d, PA, 30) IN
  \A v \in {d, x, TOD(PA, 0)} :
    /\ HalfOpenOK("until", v, A2("ruleBeforeTime", T1(134, 0), v))
    /\ HalfOpenOK("from", v, A2("ruleBeforeTime", T1(134, 1), v))
    /\ HalfOpenOK("from", v, A2("ruleAfterTime", T1(135, 0), v))
    /\ HalfOpenOK("until", v, A2("ruleAfterTime", T1(135, 1), v))
C07Inv == C07Clock /\ C07Dates /\ C07Half

\* ---- C08: (n) is the start date; hm unused (0) ------------------------------------------------
DurAmounts == 0..60
DurUnits == {"minutes", "hours", "days", "nights", "weeks", "months"}
C08For(amounts) ==
  LET d == Date(c0.y, c0.m, c0.d)  dt == DateTime(c0.y, c0.m, c0.d, 9, 30) IN
  \A k \in amounts : \A u \in DurUnits :
    LET dur == A1("ruleDigitDuration", Tok(137, k, X, X, u)) IN
    /\ dur = DenoteDuration(k, u)
    /\ A3("ruleTimeDuration", d, T0(140), dur) = MkInterval(d, EndAfter(d, k, u))
    /\ A3("ruleTimeDuration", dt, T0(140), dur) = MkInterval(dt, EndAfter(dt, k, u))
    /\ WellFormed(A3("ruleTimeDuration", d, T0(140), dur))
C08Range ==
  LET d1 == Date(c0.y, c0.m, c0.d) IN
  \A len \in {1, 2, 3, 7, 31} : \A k \in {1, 2, 3, 7, 30, 31} : \A u \in {"days", "nights"} :
    LET c2 == CivilFromDays(n + len)
        iv == MkInterval(d1, Date(c2.y, c2.m, c2.d))
        dur == MkDuration(k, u) IN
    /\ A2("ruleDurationInterval", dur, iv) = (IF k = len THEN iv ELSE FAIL)
    /\ A2("ruleIntervalDuration", iv, dur) = (IF k = len THEN iv ELSE FAIL)
    /\ A3("ruleIntervalConjDuration", iv, T0(140), dur) = (IF k = len THEN iv ELSE FAIL)
C08Words ==
  /\ \A k \in 1..31 : \A u \in DurUnits : A1("ruleNamedNumberDuration", Tok(138, k, X, X, u)) = DenoteDuration(k, u)
  /\ A1("ruleDurationHalf", Tok(139, X, X, X, "hours")) = DenoteDuration(30, "minutes")
  /\ A1("ruleDurationHalf", Tok(139, X, X, X, "days")) = DenoteDuration(12, "hours")
  /\ \A k \in 0..120 : \A u \in DurUnits : A1("ruleDigitDuration", Tok(137, k, X, X, u)) = DenoteDuration(k, u)
C08Quick == C08For({0, 1, 2, 28, 31, 60}) /\ C08Range /\ C08Words
C08Full == C08For(DurAmounts) /\ C08Range /\ C08Words

\* ---- C20: every dated value x every clock value glue to "that day at that time" --------------
C20Inv ==
  LET d == Date(c0.y, c0.m, c0.d)
      tod == TOD(hm \div 60, hm % 60)
      todh == TOD(hm \div 60, X) IN
  /\ GlueOK(d, tod, A2("ruleDateTOD", d, tod)) /\ A2("ruleDateTOD", d, tod) = Glue(d, tod)
  /\ GlueOK(d, tod, A2("ruleTODDate", tod, d)) /\ A2("ruleTODDate", tod, d) = Glue(d, tod)
  /\ GlueOK(d, todh, A2("ruleDateTOD", d, todh))
  /\ A2("ruleAbsorbOnTime", T0(100), tod) = tod
  /\ A2("ruleDateTOD", d, A2("ruleAbsorbOnTime", T0(100), tod)) = Glue(d, tod)

AllMinutes == 0..1439
PairCodes == 0..575
ThreeTimes == {0, 763, 1439}
Noon == {763}
Zero == {0}
BoundaryMinutes == {0, 1, 59, 60, 359, 360, 361, 719, 720, 721, 763, 1020, 1380, 1438, 1439}

InvBody == CASE Mode = "C03" -> C03Inv
         [] Mode = "C04q" -> C04Quick [] Mode = "C04" -> C04Full
         [] Mode = "C05" -> C05Inv
         [] Mode = "C06q" -> C06Quick [] Mode = "C06" -> C06Full
         [] Mode = "C07" -> C07Inv
         [] Mode = "C08q" -> C08Quick [] Mode = "C08" -> C08Full
         [] Mode = "C20" -> C20Inv
Inv == lvl = 1 => InvBody
=============================================================================
