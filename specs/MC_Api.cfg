SPECIFICATION Spec
CONSTANTS
  Vals = {"a", "b"}
  Ranks = {0, 1, 2}
  MaxLen = 4
INVARIANT BestReturned
PROPERTY Terminates
CHECK_DEADLOCK FALSE
