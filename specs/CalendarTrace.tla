---------------------------- MODULE CalendarTrace ----------------------------
(* Binds Calendar.tla to the implementation's calendar (Python datetime / dateutil): every     *)
(* observation is one day n with the civil date, weekday and relativedelta results the real   *)
(* libraries computed; accepted iff the TLA+ operators give the same.                          *)
EXTENDS Calendar, TLC, Json, IOUtils, Sequences
Obs == ndJsonDeserialize(IOEnv.QA_OBS_FILE)
VARIABLE l
Reject(o, clause, detail) == PrintT(<<"REJECT", o.id, clause, ToString(detail)>>)
Expect(o, clause, cond, detail) == IF cond THEN TRUE ELSE Reject(o, clause, detail)
Check(o) ==
  LET c == CivilFromDays(o.n)  ts == MkTs(c.y, c.m, c.d, 12, 43) IN
  /\ Expect(o, "civil", c = [y |-> o.y, m |-> o.m, d |-> o.d], c)
  /\ Expect(o, "weekday", WeekdayOfDays(o.n) = o.wd, WeekdayOfDays(o.n))
  /\ Expect(o, "dim", DIM(o.y, o.m) = o.dim, DIM(o.y, o.m))
  /\ Expect(o, "addmonth", Days(AddMonths(ts, 1)) = o.plus1m, Days(AddMonths(ts, 1)))
  /\ Expect(o, "addyear", Days(AddYears(ts, 1)) = o.plus1y, Days(AddYears(ts, 1)))
  /\ Expect(o, "day31", Days(SetDayClipped(ts, 31)) = o.day31, Days(SetDayClipped(ts, 31)))
  /\ Expect(o, "feb29", Days(SetMonthDayClipped(ts, 2, 29)) = o.feb29, Days(SetMonthDayClipped(ts, 2, 29)))
  /\ Expect(o, "nextwd", Days(NextWeekdayOnOrAfter(ts, 2)) = o.nextwed, Days(NextWeekdayOnOrAfter(ts, 2)))
  /\ Expect(o, "eom", Days(LastOfMonth(ts)) = o.eom, Days(LastOfMonth(ts)))
ASSUME TLCSet(7, Obs)
Init == LET O == TLCGet(7) IN l \in 1..Len(O) /\ Check(O[l])
Next == UNCHANGED l
Spec == Init /\ [][Next]_l
=============================================================================
