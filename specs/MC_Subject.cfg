SPECIFICATION Spec
CONSTANTS
  MaxItems = 4
INVARIANT Satisfiable
INVARIANT HashtagsIndependent
INVARIANT NoMatchPath
CHECK_DEADLOCK FALSE
