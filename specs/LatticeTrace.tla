----------------------------- MODULE LatticeTrace -----------------------------
(* Binds Lattice.tla to ctparse._regex_stack: the pattern matches the real lexer found in a text    *)
(* (id, span), the blank positions of the text, and the candidate sequences the real enumeration    *)
(* returned.  Accepted iff these are exactly the maximal gap-free paths of the specification.        *)
EXTENDS Lattice, Json, IOUtils
Obs == ndJsonDeserialize(IOEnv.QA_OBS_FILE)
VARIABLE l
Reject(o, clause, detail) == PrintT(<<"REJECT", o.id, clause, ToString(detail)>>)
ToSet(s) == {s[i] : i \in 1..Len(s)}
Check(o) ==
  LET want == CandidateSeqs(ToSet(o.ms), ToSet(o.blanks))  got == ToSet(o.seqs) IN
  /\ IF got = want THEN TRUE ELSE Reject(o, "candidate-sequences", want \ got)
  /\ IF Len(o.seqs) = Cardinality(got) THEN TRUE ELSE Reject(o, "duplicate-sequence", Len(o.seqs))
  \* the coverage filter (relative_match_len = relnum / relden): the candidate sequences the engine actually expanded
  /\ IF o.filtered = 0 \/ ToSet(o.admitted) = AdmittedSeqs(ToSet(o.ms), ToSet(o.blanks), o.relnum, o.relden)
     THEN TRUE ELSE Reject(o, "coverage-filter", AdmittedSeqs(ToSet(o.ms), ToSet(o.blanks), o.relnum, o.relden))
ASSUME TLCSet(7, Obs)
Init == LET O == TLCGet(7) IN l \in 1..Len(O) /\ Check(O[l])
Next == UNCHANGED l
Spec == Init /\ [][Next]_l
=============================================================================
